import Ucfg.Model.Data
import Ucfg.Model.Conv
/-
  C17 — parse.Value accepts every JSON value and reads it back faithfully.
  The specification: a JSON value and the data it denotes, written directly
  from the statement (objects as maps, arrays as lists, numbers as numerically
  equal integers or floats, strings decoded, null as nil; empty array/object
  read as nil, as the parser documents).
-/
namespace Ucfg.Spec.C17

inductive J where
  | null
  | bool (b : Bool)
  | num (text : String)          -- a JSON number literal
  | str (s : String)             -- the decoded string
  | arr (l : List J)
  | obj (m : List (String × J))
  deriving Repr, Inhabited

def isDigits (l : List Char) : Bool := !l.isEmpty && l.all (fun c => '0' ≤ c && c ≤ '9')

/-- the datum a JSON number denotes: an exact integer when the literal is one and it
fits uint64/int64, the nearest float64 otherwise -/
def numData (std : Stdlib) (text : String) : Data :=
  let l := text.toList
  let (neg, ds) := match l with
    | '-' :: r => (true, r)
    | _ => (false, l)
  if isDigits ds then
    let n := (String.ofList ds).toNat!
    if !neg && n ≤ 2^64 - 1 then .uint n
    else if neg && n ≤ 2^63 then .int (-(n : Int))
    else match std.parseFloat text with
      | some f => .float f
      | none => .str text
  else match std.parseFloat text with
    | some f => .float f
    | none => .str text

def objPut : List (String × Data) → String → Data → List (String × Data)
  | [], k, v => [(k, v)]
  | (k', v') :: r, k, v => if k = k' then (k', v) :: r else (k', v') :: objPut r k v

mutual
def expected (std : Stdlib) : J → Data
  | .null => .nil
  | .bool b => .bool b
  | .num t => numData std t
  | .str s => .str s
  | .arr l => match expectedL std l with
    | [] => .nil
    | xs => .arr xs
  | .obj m => match expectedO std m [] with
    | [] => .nil
    | kvs => .map kvs
def expectedL (std : Stdlib) : List J → List Data
  | [] => []
  | x :: r => expected std x :: expectedL std r
def expectedO (std : Stdlib) : List (String × J) → List (String × Data) → List (String × Data)
  | [], acc => acc
  | (k, v) :: r, acc => expectedO std r (objPut acc k (expected std v))
end

end Ucfg.Spec.C17
