import Ucfg.Base.IntLit
import Ucfg.Model.Data
import Ucfg.Model.Path
/-
  C20 — numeric path segments index lists only within [0, MaxIdx].
  The specification is written directly from the statement, independently of
  parsePath/normalize: which segments are indices, and what a config created from
  a single key must look like.
-/
namespace Ucfg.Spec.C20

/-- a segment is a list index exactly when numeric keys are not enabled and it is an
integer literal (Go syntax) between 0 and MaxIdx -/
def isIndex (s : String) (maxIdx : Int) (enk : Bool) : Option Nat :=
  if enk then none
  else match IntLit.parseIntS s with
    | some i => if 0 ≤ i ∧ i ≤ maxIdx then some i.toNat else none
    | none => none

/-- the segments of a key: the key itself without a separator, its pieces otherwise -/
def segments (key sep : String) : List String :=
  if sep == "" then [key] else splitOn key sep

/-- the data a config created from {key: v} must unpack to -/
def nest (maxIdx : Int) (enk : Bool) (v : Data) : List String → Data
  | [] => v
  | s :: r =>
    match isIndex s maxIdx enk with
    | some i => .arr (List.replicate i .nil ++ [nest maxIdx enk v r])
    | none => .map [(s, nest maxIdx enk v r)]

def expected (key sep : String) (maxIdx : Int) (enk : Bool) (v : Data) : Data :=
  let segs := segments key sep
  -- EnableNumKeys only applies to single-segment keys
  let enk' := if segs.length > 1 then false else enk
  nest maxIdx enk' v segs

/-- largest list length anywhere in a datum -/
partial def maxLen : Data → Nat
  | .arr l => l.foldl (fun m d => max m (maxLen d)) l.length
  | .map m => m.foldl (fun acc (_, d) => max acc (maxLen d)) 0
  | _ => 0

end Ucfg.Spec.C20
