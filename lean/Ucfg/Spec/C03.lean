import Ucfg.Model.PrimUnpack
/-
  C03 — typed unpacking preserves the value or fails.
  `specConv` is written from the statement: the exact mathematical value of the
  setting, the range of the target, truncation toward zero, seconds for durations;
  `none` means "must be an error".
-/
namespace Ucfg.Spec.C03
open Ucfg

def intRange (bits : Nat) (x : Int) : Bool := -(2 : Int)^(bits-1) ≤ x && x < (2 : Int)^(bits-1)
def uintRange (bits : Nat) (x : Int) : Bool := 0 ≤ x && x < (2 : Int)^bits

/-- float → float target of the given width (the value itself, rounded to float32 if needed) -/
def floatTo (bits : Nat) (b : Nat) : Option Scalar :=
  if bits == 32 then (if overflowFloat32 b then none else some (.float (F64.toF32 b)))
  else some (.float b)

def specConv (std : Stdlib) (k : Kind) (p : Prim) : Option Scalar :=
  match k, p with
  -- integer targets
  | .int bits, .int i => if intRange bits i then some (.int i) else none
  | .int bits, .uint u => if intRange bits u then some (.int u) else none
  | .int bits, .float b =>
    (match F64.decode b with
     | .fin neg m e =>
       let t := F64.truncFin neg m e
       if intRange 64 t && intRange bits t then some (.int t) else none
     | _ => none)                                   -- NaN, ±Inf
  | .int bits, .str s =>
    (match IntLit.parseIntS s with
     | some i => if intRange bits i then some (.int i) else none
     | none => none)
  | .int _, _ => none
  -- unsigned targets
  | .uint bits, .int i => if uintRange bits i then some (.uint i.toNat) else none
  | .uint bits, .uint u => if uintRange bits u then some (.uint u) else none
  | .uint bits, .float b =>
    (match F64.decode b with
     | .fin neg m e =>
       -- a negative value (however small) is an error for an unsigned target; -0 is zero
       if neg && m != 0 then none
       else
         let t : Int := F64.truncMag m e
         if uintRange 64 t && uintRange bits t then some (.uint t.toNat) else none
     | _ => none)
  | .uint bits, .str s =>
    (match IntLit.parseUintS s with
     | some n => if uintRange bits n then some (.uint n) else none
     | none => none)
  | .uint _, _ => none
  -- float targets: the correctly rounded value
  | .float bits, .int i => floatTo bits (F64.ofInt i)
  | .float bits, .uint u => floatTo bits (F64.ofInt u)
  | .float bits, .float b => floatTo bits b
  | .float bits, .str s => (std.parseFloat s).bind (floatTo bits)
  | .float _, _ => none
  -- strings: every primitive has a textual form
  | .string, p => (match p.toStr std with | .ok s => some (.str s) | _ => none)
  -- booleans
  | .bool, .bool b => some (.bool b)
  | .bool, .str s => (parseBool s).map Scalar.bool
  | .bool, _ => none
  -- durations: numbers mean seconds
  | .duration, .int i =>
    if intRange 64 (i * 1000000000) then some (.dur (i * 1000000000)) else none
  | .duration, .uint u =>
    if intRange 64 ((u : Int) * 1000000000) then some (.dur ((u : Int) * 1000000000)) else none
  | .duration, .float b =>
    (match F64.decode (F64.mul b secondBits) with
     | .fin neg m e =>
       let t := F64.truncFin neg m e
       if intRange 64 t then some (.dur t) else none
     | _ => none)
  | .duration, .str s => (std.parseDuration s).map Scalar.dur
  | .duration, .bool b => (std.parseDuration (if b then "true" else "false")).map Scalar.dur
  | .duration, .nil => (std.parseDuration "null").map Scalar.dur

/-- the outcome the statement demands -/
def demanded (std : Stdlib) (k : Kind) (p : Prim) : Option Scalar := specConv std k p

end Ucfg.Spec.C03
