/-
  IEEE-754 binary64 as exact dyadic numbers.  A float is carried around as its
  64 raw bits (a `Nat`); `decode` gives `nan | inf | fin neg m e` with value
  (-1)^neg · m · 2^e.  Comparison with integers, truncation and rounding are
  exact integer arithmetic, so the boundary theorems of C03 are ordinary
  `omega`/`Nat.div` facts.  Lean's opaque `Float` is not used anywhere.
-/
namespace Ucfg

inductive F64 where
  | nan
  | inf (neg : Bool)
  | fin (neg : Bool) (m : Nat) (e : Int)
  deriving Repr, DecidableEq, Inhabited

namespace F64

def pow2 (k : Nat) : Nat := 2 ^ k

def decode (bits : Nat) : F64 :=
  let neg := (bits / 2^63) % 2 == 1
  let ex : Nat := (bits / 2^52) % 2048
  let fr : Nat := bits % 2^52
  if ex == 2047 then (if fr == 0 then .inf neg else .nan)
  else if ex == 0 then .fin neg fr (-1074)
  else .fin neg (2^52 + fr) ((ex : Int) - 1075)

/-- number of bits of a natural number -/
def bitLen (m : Nat) : Nat := if m = 0 then 0 else Nat.log2 m + 1

/-- shift right by `s` bits with round-to-nearest-even -/
def shrRNE (m s : Nat) : Nat :=
  if s = 0 then m else
  let q := m / 2^s
  let r := m % 2^s
  let half := 2^(s-1)
  if r > half then q + 1
  else if r < half then q
  else if q % 2 == 1 then q + 1 else q

/-- round the exact positive value m·2^e to a binary float with `p` bits of
precision and minimum quantum exponent `qmin` (= -1074 for float64, -149 for
float32); returns the rounded (m', e') with m' < 2^p, or `none` for zero. -/
def roundPos (p : Nat) (qmin : Int) (m : Nat) (e : Int) : Nat × Int :=
  let L := bitLen m
  -- exponent of the quantum if the leading bit stays where it is
  let q0 : Int := e + (L : Int) - (p : Int)
  let q : Int := if q0 < qmin then qmin else q0
  let sh : Int := q - e
  let mant := if sh ≤ 0 then m * pow2 (-sh).toNat else shrRNE m sh.toNat
  if mant = pow2 p then (pow2 (p-1), q + 1) else (mant, q)

/-- encode a rounded float64 (m < 2^53, e ≥ -1074) into bits; overflow → inf -/
def encode64 (neg : Bool) (m : Nat) (e : Int) : Nat :=
  let s := if neg then 2^63 else 0
  if m < 2^52 then s + m   -- zero or subnormal (e = -1074 by construction)
  else
    let be : Int := e + 1075
    if be ≥ 2047 then s + 2047 * 2^52
    else s + be.toNat * 2^52 + (m - 2^52)

def nanBits : Nat := 0x7FF8000000000001
def infBits (neg : Bool) : Nat := (if neg then 2^63 else 0) + 2047 * 2^52

/-- correctly rounded float64 bits of the exact value (-1)^neg · m · 2^e -/
def ofDyadic (neg : Bool) (m : Nat) (e : Int) : Nat :=
  if m = 0 then (if neg then 2^63 else 0) else
  let (m', e') := roundPos 53 (-1074) m e
  encode64 neg m' e'

/-- float64(i) for an integer -/
def ofInt (i : Int) : Nat := ofDyadic (i < 0) i.natAbs 0

/-- the float64 bits of float64(float32(x)) for finite x, given that the
magnitude does not exceed MaxFloat32 before rounding (reflect.OverflowFloat has
been checked by the caller); a result that rounds up to 2^128 becomes +Inf. -/
def toF32 (bits : Nat) : Nat :=
  match decode bits with
  | .nan => bits
  | .inf _ => bits
  | .fin neg m e =>
    if m = 0 then bits else
    let (m', e') := roundPos 24 (-149) m e
    -- float32 overflow: m'·2^e' ≥ 2^128
    if m' ≥ 2^23 && e' + 23 ≥ 128 then infBits neg
    else ofDyadic neg m' e'

/-- x * y, correctly rounded -/
def mul (a b : Nat) : Nat :=
  match decode a, decode b with
  | .nan, _ => nanBits
  | _, .nan => nanBits
  | .inf n1, .inf n2 => infBits (n1 != n2)
  | .inf n1, .fin n2 m _ => if m = 0 then nanBits else infBits (n1 != n2)
  | .fin n1 m _, .inf n2 => if m = 0 then nanBits else infBits (n1 != n2)
  | .fin n1 m1 e1, .fin n2 m2 e2 => ofDyadic (n1 != n2) (m1 * m2) (e1 + e2)

/-- signed numerator for comparisons -/
def sgn (neg : Bool) (m : Nat) : Int := if neg then -(m : Int) else (m : Int)

/-- exact test value < c for an integer c (finite values) -/
def finLtInt (neg : Bool) (m : Nat) (e : Int) (c : Int) : Bool :=
  if e ≥ 0 then sgn neg m * (pow2 e.toNat : Int) < c
  else sgn neg m < c * (pow2 (-e).toNat : Int)

/-- exact test c < value -/
def finGtInt (neg : Bool) (m : Nat) (e : Int) (c : Int) : Bool :=
  if e ≥ 0 then c < sgn neg m * (pow2 e.toNat : Int)
  else c * (pow2 (-e).toNat : Int) < sgn neg m

/-- Go's `f < c` where c is an integer-valued float constant (false for NaN) -/
def ltInt : F64 → Int → Bool
  | .nan, _ => false
  | .inf neg, _ => neg
  | .fin neg m e, c => finLtInt neg m e c

/-- Go's `c < f` / `f > c` -/
def gtInt : F64 → Int → Bool
  | .nan, _ => false
  | .inf neg, _ => !neg
  | .fin neg m e, c => finGtInt neg m e c

/-- Go's `f >= c` (false for NaN) -/
def geInt : F64 → Int → Bool
  | .nan, _ => false
  | .inf neg, _ => !neg
  | .fin neg m e, c => !finLtInt neg m e c

/-- Go's `f <= c` (false for NaN) -/
def leInt : F64 → Int → Bool
  | .nan, _ => false
  | .inf neg, _ => neg
  | .fin neg m e, c => !finGtInt neg m e c

def isNaN : F64 → Bool | .nan => true | _ => false

/-- magnitude truncated toward zero -/
def truncMag (m : Nat) (e : Int) : Nat :=
  if e ≥ 0 then m * pow2 e.toNat else m / pow2 (-e).toNat

/-- truncation toward zero of a finite value -/
def truncFin (neg : Bool) (m : Nat) (e : Int) : Int := sgn neg (truncMag m e)

/-- float compare of two bit patterns: `a < b`, `a == b` (IEEE, false on NaN) -/
def ltBits (a b : Nat) : Bool :=
  match decode a, decode b with
  | .nan, _ => false
  | _, .nan => false
  | .inf n1, .inf n2 => n1 && !n2
  | .inf n1, .fin .. => n1
  | .fin .., .inf n2 => !n2
  | .fin n1 m1 e1, .fin n2 m2 e2 =>
    -- compare m1·2^e1 and m2·2^e2 exactly
    let lo := if e1 < e2 then e1 else e2
    sgn n1 m1 * (pow2 (e1 - lo).toNat : Int) < sgn n2 m2 * (pow2 (e2 - lo).toNat : Int)

def isZeroBits (a : Nat) : Bool :=
  match decode a with
  | .fin _ m _ => m == 0
  | _ => false

end F64
end Ucfg
