/-
  strconv.ParseUint(s, 0, 64) / strconv.ParseInt(s, 0, 64), modelled exactly on
  `List Char` (every character the functions distinguish is ASCII).  The result
  is `none` for every error (syntax or range); the callers in go-ucfg only test
  `err == nil`.  Validated against the real strconv exhaustively on short
  strings by the correspondence harness (kind "intlit").
-/
namespace Ucfg.IntLit

def lower (c : Char) : Char := Char.ofNat (c.toNat ||| 0x20)

def isDec (c : Char) : Bool := '0' ≤ c && c ≤ '9'
def isLowerAZ (c : Char) : Bool := 'a' ≤ c && c ≤ 'z'

/-- digit value as computed in ParseUint's loop (before the `d >= base` test) -/
def digitVal (c : Char) : Option Nat :=
  if isDec c then some (c.toNat - '0'.toNat)
  else if c.toNat < 128 && isLowerAZ (lower c) then some ((lower c).toNat - 'a'.toNat + 10)
  else none

/-- strconv.underscoreOK -/
def underscoreOK (s0 : List Char) : Bool :=
  let s := match s0 with
    | '-' :: r => r
    | '+' :: r => r
    | _ => s0
  let (s, saw0, hex) := match s with
    | '0' :: c :: r =>
      if lower c == 'b' || lower c == 'o' || lower c == 'x' then (r, '0', lower c == 'x')
      else (s, '^', false)
    | _ => (s, '^', false)
  let rec go (hex : Bool) : List Char → Char → Bool
    | [], saw => saw != '_'
    | c :: r, saw =>
      if isDec c || (hex && c.toNat < 128 && 'a' ≤ lower c && lower c ≤ 'f') then go hex r '0'
      else if c == '_' then
        if saw != '0' then false else go hex r '_'
      else if saw == '_' then false
      else go hex r '!'
  go hex s saw0

/-- prefix handling of ParseUint with base argument 0: returns (base, rest) -/
def splitBase (s : List Char) : Nat × List Char :=
  match s with
  | '0' :: c :: r =>
    if r.length ≥ 1 && lower c == 'b' then (2, r)
    else if r.length ≥ 1 && lower c == 'o' then (8, r)
    else if r.length ≥ 1 && lower c == 'x' then (16, r)
    else (8, c :: r)
  | '0' :: r => (8, r)
  | _ => (10, s)

/-- the digit loop; `none` = syntax error.  Accumulates the exact value (the
range test is applied afterwards: once the value exceeds the maximum the real
loop returns a range error, which is an error as well). -/
def digits (base : Nat) : List Char → Nat → Bool → Option (Nat × Bool)
  | [], n, us => some (n, us)
  | c :: r, n, us =>
    if c == '_' then digits base r n true
    else match digitVal c with
      | none => none
      | some d => if d ≥ base then none else digits base r (n * base + d) us

def maxU64 : Nat := 2^64 - 1

/-- ParseUint(s, 0, 64) -/
def parseUint (s : List Char) : Option Nat :=
  if s.isEmpty then none else
  let (base, body) := splitBase s
  match digits base body 0 false with
  | none => none
  | some (n, us) =>
    if n > maxU64 then none
    else if us && !underscoreOK s then none
    else some n

/-- ParseInt(s, 0, 64) -/
def parseInt (s : List Char) : Option Int :=
  if s.isEmpty then none else
  let (neg, body) := match s with
    | '+' :: r => (false, r)
    | '-' :: r => (true, r)
    | _ => (false, s)
  match parseUint body with
  | none => none
  | some un =>
    if !neg && un ≥ 2^63 then none
    else if neg && un > 2^63 then none
    else some (if neg then -(un : Int) else (un : Int))

def parseUintS (s : String) : Option Nat := parseUint s.toList
def parseIntS (s : String) : Option Int := parseInt s.toList

end Ucfg.IntLit
