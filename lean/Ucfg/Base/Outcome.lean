/-
  Outcome of a modelled Go call.  Nothing is ever defaulted: a Go panic is the
  constructor `panic`, exhausted recursion budget is `fuel`, an error value is
  `err`.  Properties C07/C08 are statements that `panic`/`fuel` are unreachable.
-/
namespace Ucfg

/-- The closed set of `Err*` reason values in error.go, plus `other` for errors
that originate in the standard library (strconv, time, regexp) or are built
with `errors.New`/`fmt.Errorf` at the call site. -/
inductive Reason where
  | missing | noParse | cyclic | typeNoArray | typeMismatch | keyTypeNotString
  | indexOutOfRange | pointerRequired | arraySizeMismatch | expectedObject
  | nilConfig | nilValue | duplicateKey | overflow | negative | zeroValue
  | required | empty | arrayEmpty | mapEmpty | regexEmpty | stringEmpty
  | other
  deriving DecidableEq, Repr, Inhabited

def Reason.name : Reason → String
  | .missing => "missing" | .noParse => "noParse" | .cyclic => "cyclic"
  | .typeNoArray => "typeNoArray" | .typeMismatch => "typeMismatch"
  | .keyTypeNotString => "keyTypeNotString" | .indexOutOfRange => "indexOutOfRange"
  | .pointerRequired => "pointerRequired" | .arraySizeMismatch => "arraySizeMismatch"
  | .expectedObject => "expectedObject" | .nilConfig => "nilConfig" | .nilValue => "nilValue"
  | .duplicateKey => "duplicateKey" | .overflow => "overflow" | .negative => "negative"
  | .zeroValue => "zeroValue" | .required => "required" | .empty => "empty"
  | .arrayEmpty => "arrayEmpty" | .mapEmpty => "mapEmpty" | .regexEmpty => "regexEmpty"
  | .stringEmpty => "stringEmpty" | .other => "other"

/-- An error value as the API returns it.  `typed = false` models an error that
escapes without being a `ucfg.Error` (C14 is about that never happening);
`path` is what `Error.Path()` returns (none when the model does not track it). -/
structure Err where
  reason : Reason
  typed  : Bool := true
  path   : Option String := none
  msg    : Option String := none
  deriving DecidableEq, Repr, Inhabited

inductive Outcome (α : Type) where
  | ok (a : α)
  | err (e : Err)
  | panic (site : String)
  | fuel
  deriving Repr, Inhabited

namespace Outcome
variable {α β : Type}

@[inline] def bind (x : Outcome α) (f : α → Outcome β) : Outcome β :=
  match x with
  | ok a => f a
  | err e => err e
  | panic s => panic s
  | fuel => fuel

instance : Monad Outcome where
  pure := ok
  bind := bind

def isOk : Outcome α → Bool | ok _ => true | _ => false
def isErr : Outcome α → Bool | err _ => true | _ => false
def isPanic : Outcome α → Bool | panic _ => true | _ => false
def isFuel : Outcome α → Bool | fuel => true | _ => false

@[simp] theorem bind_ok (a : α) (f : α → Outcome β) : (ok a >>= f) = f a := rfl
@[simp] theorem bind_err (e : Err) (f : α → Outcome β) : (err e >>= f) = err e := rfl
@[simp] theorem bind_panic (s : String) (f : α → Outcome β) : (panic s >>= f) = panic s := rfl
@[simp] theorem bind_fuel (f : α → Outcome β) : ((fuel : Outcome α) >>= f) = fuel := rfl

def raise (r : Reason) : Outcome α := err { reason := r }
def raiseAt (r : Reason) (p : String) : Outcome α := err { reason := r, path := some p }
def raiseRaw (r : Reason) : Outcome α := err { reason := r, typed := false }

end Outcome
end Ucfg
