import Ucfg.Model.Path
import Ucfg.Model.Conv
/-
  merge.go: mergeConfig / mergeConfigDict / mergeConfigArr / mergeValues and the
  per-field policy tree (opts.go fieldHandlingTree, merge.go fieldOptsOverride /
  includeWildcard), at the data level.

  Not modelled here: a destination or source value that is an unevaluated
  reference is treated as "not a sub-configuration" (the real code evaluates it
  and, if it resolves to an object, merges into the referenced object).  The
  generators never merge over a reference to an object.
-/
namespace Ucfg

/-- value.toConfig for merge purposes: a config is itself, nil is a fresh empty config -/
def toCfg? : Val → Option Val
  | .sub d a hd ha => some (.sub d a hd ha)
  | .prim .nil => some Val.empty
  | _ => none

/-! ### cfgSub.cpy at the data level

`cpy` rebuilds a node with `fields := &fields{}` and `set`s every entry, so the
copy's dictionary is non-nil exactly when it has entries; the array part keeps
its nil-ness. -/
mutual
def cpy : Val → Val
  | .prim p => .prim p
  | .dyn i e => .dyn i e
  | .sub d a _ ha => .sub (cpyD d) (cpyA a) (!d.isEmpty) ha
def cpyD : List (String × Val) → List (String × Val)
  | [] => []
  | (k, v) :: r => (k, cpy v) :: cpyD r
def cpyA : List Val → List Val
  | [] => []
  | v :: r => cpy v :: cpyA r
end

/-- mergeValues returned the sub-configuration already stored as `old`, merged in
place (merge.go mergedInPlace): the stored node is kept, not replaced by a copy -/
def inPlace (old : Option Val) (v : Val) : Bool :=
  match old with
  | some (.sub ..) => (toCfg? v).isSome
  | _ => false

/-- what mergeConfigDict / mergeConfigMergeArr store for a merged value -/
def store (old : Option Val) (v merged : Val) : Val :=
  if inPlace old v then merged else cpy merged

/-! ### merge without a per-field policy tree -/

/-- the array part of mergeConfig once both element lists are known -/
def arrPolicy (h : Handling) (a1 a2 merged : List Val) (ha1 : Bool) : List Val × Bool :=
  match h with
  | .replace | .arrReplace => if a2.isEmpty then (a1, ha1) else (cpyA a2, true)
  | .prepend => if a2.isEmpty then (a1, ha1) else (cpyA a2 ++ cpyA a1, true)
  | .append => (a1 ++ cpyA a2, ha1 || !a2.isEmpty)
  | _ => (merged, ha1 || !a2.isEmpty)

mutual
/-- mergeValues(opts, old, v); with `old = some to` and both configs this is mergeConfig(opts, to, v) -/
def mergeValsP (h : Handling) (old : Option Val) (v : Val) : Val :=
  match old with
  | none => v
  | some o =>
    match toCfg? o with
    | none => v
    | some so =>
      match v with
      | .sub d2 a2 _ _ =>
        match so with
        | .sub d1 a1 hd1 ha1 =>
          .sub (if d2.isEmpty then d1 else mergeDictP h (if h = .replace then [] else d1) d2)
            (arrPolicy h a1 a2 (mergeArrP h a1 a2) ha1).1
            (if d2.isEmpty then hd1 else true)
            (arrPolicy h a1 a2 (mergeArrP h a1 a2) ha1).2
        | _ => so
      | .prim .nil => so
      | _ => v
termination_by structural v
def mergeDictP (h : Handling) (d1 : Dict) (d2 : Dict) : Dict :=
  match d2 with
  | [] => d1
  | (k, v) :: r => mergeDictP h (dset d1 k (store (dget d1 k) v (mergeValsP h (dget d1 k) v))) r
termination_by structural d2
/-- mergeConfigMergeArr: index-wise, then the tail of the longer side -/
def mergeArrP (h : Handling) (a1 : List Val) (a2 : List Val) : List Val :=
  match a1, a2 with
  | a, [] => a
  | [], y :: b => cpy y :: cpyA b
  | x :: a, y :: b => store (some x) y (mergeValsP h (some x) y) :: mergeArrP h a b
termination_by structural a2
end

/-- mergeConfig(opts, to, from) under global policy `h`, no field tree -/
def mergeP (h : Handling) (to frm : Val) : Val :=
  match frm with
  | .sub .. => mergeValsP h (some to) frm
  | _ => to

/-! ### the per-field policy tree -/

/-- t.child(name, idx): (*Config).Child with default options -/
def ftChild (t : Val) (name : String) (idx : Int) : Option Val :=
  match getField tcPlain {} t name idx with
  | .ok v => (match tcPlain v with | .ok c => some c | _ => none)
  | _ => none

/-- child.configHandling("*", -1): (*Config).Uint("*", -1), converted to the uint8 enum -/
def ftHandlingOf (c : Val) : Option Handling :=
  match getField tcPlain {} c "*" (-1) with
  | .ok (.prim p) => (match p.toUint with | .ok n => some (Handling.fromCode (n % 256)) | _ => none)
  | _ => none

mutual
/-- fieldHandlingTree.fieldHandling -/
def fhNode (t : Val) (name : String) (idx : Int) : Handling × Option Val × Bool :=
  match t with
  | .sub d a hd ha =>
    let c? := ftChild (.sub d a hd ha) name idx
    match c?, c?.bind ftHandlingOf with
    | some c, some h => (h, some c, true)
    | _, _ => fhWild d name idx c?
  | _ => (.dflt, none, false)
/-- the wildcard (`**`) branch: scan the dictionary for the `**` entry -/
def fhWild : Dict → String → Int → Option Val → Handling × Option Val × Bool
  | [], _, _, c? => (.dflt, c?, false)
  | (k, v) :: r, name, idx, c? =>
    if k = "**" then
      match v with
      | .sub d a hd ha =>
        match fhNode (.sub d a hd ha) name idx with
        | (h, cfg, true) => (h, cfg, true)
        | _ => (.dflt, c?, false)
      | _ => (.dflt, c?, false)
    else fhWild r name idx c?
end

/-- t.wildcard() -/
def ftWildcard (t : Val) : Option Val := ftChild t "**" (-1)

/-- merge.go includeWildcard -/
def includeWildcard (child : Option Val) (parent : Val) : Option Val :=
  match ftWildcard parent with
  | none => child
  | some w =>
    if child.isNone && parent.dict.length == 1 then some parent
    else
      let base := match child with
        | some c => mergeP .dflt Val.empty c
        | none => Val.empty
      match base with
      | .sub d a _ ha => some (.sub (dset d "**" w) a true ha)
      | _ => some base

/-- merge.go fieldOptsOverride: the (policy, tree) in force below key `name` / index `idx` -/
def fieldOptsOverride (h : Handling) (ft : Option Val) (name : String) (idx : Int) :
    Handling × Option Val :=
  match ft with
  | none => (h, none)
  | some t =>
    let (fh, child, ok) := fhNode t name idx
    let child' := includeWildcard child t
    if ok then (fh, child')
    else
      -- a key or list element without an entry leaves the configured paths (child' = none drops the tree)
      (h, child')

/-- merge.go fieldOptsOverrideIdx: the entry for the index if there is one, else the entry for all elements (`*`) -/
def fieldOptsOverrideIdx (h : Handling) (ft : Option Val) (i : Nat) : Handling × Option Val :=
  match ft with
  | none => (h, none)
  | some t =>
    match fhNode t "" i with
    | (_, child, ok) =>
      if ok || child.isSome then fieldOptsOverride h ft "" i else fieldOptsOverride h ft "*" (-1)

/-! ### merge with a per-field policy tree -/

mutual
def mergeValsF (h : Handling) (ft : Option Val) (old : Option Val) (v : Val) : Val :=
  match old with
  | none => v
  | some o =>
    match toCfg? o with
    | none => v
    | some so =>
      match v with
      | .sub d2 a2 _ _ =>
        match so with
        | .sub d1 a1 hd1 ha1 =>
          .sub (if d2.isEmpty then d1 else mergeDictF h ft (if h = .replace then [] else d1) d2)
            (arrPolicy h a1 a2 (mergeArrF h ft 0 a1 a2) ha1).1
            (if d2.isEmpty then hd1 else true)
            (arrPolicy h a1 a2 (mergeArrF h ft 0 a1 a2) ha1).2
        | _ => so
      | .prim .nil => so
      | _ => v
termination_by structural v
def mergeDictF (h : Handling) (ft : Option Val) (d1 : Dict) (d2 : Dict) : Dict :=
  match d2 with
  | [] => d1
  | (k, v) :: r =>
    mergeDictF h ft (dset d1 k (store (dget d1 k) v
      (mergeValsF (fieldOptsOverride h ft k (-1)).1 (fieldOptsOverride h ft k (-1)).2 (dget d1 k) v))) r
termination_by structural d2
def mergeArrF (h : Handling) (ft : Option Val) (i : Nat) (a1 : List Val) (a2 : List Val) : List Val :=
  match a1, a2 with
  | a, [] => a
  | [], y :: b => cpy y :: cpyA b
  | x :: a, y :: b =>
    store (some x) y (mergeValsF (fieldOptsOverrideIdx h ft i).1 (fieldOptsOverrideIdx h ft i).2 (some x) y)
      :: mergeArrF h ft (i+1) a b
termination_by structural a2
end

def mergeF (h : Handling) (ft : Option Val) (to frm : Val) : Val :=
  match frm with
  | .sub .. => mergeValsF h ft (some to) frm
  | _ => to

/-- mergeConfig(opts, to, from) -/
def mergeCfg (o : Opts) (to frm : Val) : Val := mergeF o.handling o.fieldTree to frm

end Ucfg
