import Ucfg.Model.Normalize
import Ucfg.Model.Parse
/-
  flag/util.go NewFlagKeyValue + flag/value.go FlagValue.Set + cfgutil.Collector.Add.
-/
namespace Ucfg
open Outcome

/-- the Go value parse.Value returned, handed to NewFrom -/
def dataToGoData : Data → GoData
  | .nil => .nil
  | .bool b => .bool b
  | .int i => .int i
  | .uint n => .uint n
  | .float f => .float f
  | .str s => .str s
  | .arr l => .list (goL l)
  | .map m => .map (goM m)
where
  goL : List Data → List GoData
    | [] => []
    | x :: r => dataToGoData x :: goL r
  goM : List (String × Data) → List (String × GoData)
    | [] => []
    | (k, v) :: r => (k, dataToGoData v) :: goM r

/-- strings.SplitN(arg, "=", 2) -/
def splitEq (arg : String) : String × Option String :=
  let l := arg.toList
  match l.span (· != '=') with
  | (k, []) => (String.ofList k, none)
  | (k, _ :: v) => (String.ofList k, some (String.ofList v))

/-- the collector: accumulated config and the first error -/
structure Collector where
  config : Val
  err : Option Err
  deriving Repr, Inhabited

/-- the loader of NewFlagKeyValue: `none` = argument ignored (empty value) -/
def flagLoad (std : Stdlib) (o : Opts) (autoBool : Bool) (arg : String) : Outcome (Option Val) :=
  match splitEq arg with
  | (_, none) =>
    if !autoBool then raiseRaw .other
    else (newFrom o (.map [(arg, .bool true)])).bind (fun c => .ok (some c))
  | (key, some v) =>
    if v == "" then .ok none
    else match Parse.value std v with
      | .ok d => (newFrom o (.map [(key, dataToGoData d)])).bind (fun c => .ok (some c))
      | .err e => .err e
      | .panic s => .panic s
      | .fuel => .fuel

/-- cfgutil.Collector.Add after the loader ran -/
def collectorAdd (o : Opts) (c : Collector) (r : Outcome (Option Val)) : Collector :=
  match c.err with
  | some _ => c                                   -- the first error sticks
  | none =>
    match r with
    | .err e => { c with err := some e }
    | .ok none => c
    | .ok (some cfg) => { c with config := mergeCfg o c.config cfg }
    | .panic s => { c with err := some { reason := .other, msg := some s } }
    | .fuel => { c with err := some { reason := .other, msg := some "fuel" } }

/-- FlagValue.Set -/
def flagSet (std : Stdlib) (o : Opts) (autoBool : Bool) (c : Collector) (arg : String) : Collector :=
  collectorAdd o c (flagLoad std o autoBool arg)

def flagSets (std : Stdlib) (o : Opts) (autoBool : Bool) (c : Collector) (args : List String) : Collector :=
  args.foldl (flagSet std o autoBool) c

/-! ### file flags (flag/file.go NewFlagFiles): the same collector behind another loader -/

/-- one argument of a file flag, by what its loader does with it -/
inductive FileArg where
  | doc (d : GoData)     -- a loader is registered for the extension (or as the "" fallback) and decodes the file to this value
  | fail                 -- no loader for the extension, a file that does not exist, or a text the decoder refuses
  deriving Repr, Inhabited

/-- the loader of NewFlagFiles: `loader(path, opts...)` - the flag's options create the config -/
def fileLoad (o : Opts) : FileArg → Outcome (Option Val)
  | .doc d => (newFrom o d).bind (fun c => .ok (some c))
  | .fail => raiseRaw .other

def fileSets (o : Opts) (c : Collector) (args : List FileArg) : Collector :=
  args.foldl (fun c a => collectorAdd o c (fileLoad o a)) c

/-- the collector fed with the loader results of a sequence of arguments, whatever the loader -/
def collect (o : Opts) (c : Collector) (rs : List (Outcome (Option Val))) : Collector :=
  rs.foldl (collectorAdd o) c

end Ucfg
