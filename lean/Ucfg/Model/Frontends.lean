import Ucfg.Model.Data
import Ucfg.Base.F64
/-!
  The three format front-ends (yaml/yaml.go, json/json.go, hjson/hjson.go) decode a document to generic Go values
  and hand them to `NewFrom`.  The decoders are third-party code and are not modelled; what differs between them for
  a JSON-expressible document is the *representation of numbers*: gopkg.in/yaml.v2 yields `int` for integer
  literals and `float64` otherwise, encoding/json and hjson-go yield `float64` for every number.  `jsonFlavour` is
  that re-representation of a decoded document.
-/
namespace Ucfg

mutual
/-- the value encoding/json (and hjson-go) decode where yaml.v2 decodes `d` -/
def jsonFlavour : GoData → GoData
  | .int i => .float (F64.ofInt i)
  | .uint n => .float (F64.ofInt n)
  | .list l => .list (jsonFlavourL l)
  | .map m => .map (jsonFlavourM m)
  | d => d
def jsonFlavourL : List GoData → List GoData
  | [] => []
  | d :: r => jsonFlavour d :: jsonFlavourL r
def jsonFlavourM : List (String × GoData) → List (String × GoData)
  | [] => []
  | (k, d) :: r => (k, jsonFlavour d) :: jsonFlavourM r
end

end Ucfg
