import Ucfg.Model.Tree
/-
  Decidable equality for the nested inductives `Expr` and `Val` (the deriving
  handler does not apply to nested inductives): boolean equality by mutual
  structural recursion, proved to coincide with `=`.
-/
namespace Ucfg

mutual
def Expr.beq : Expr → Expr → Bool
  | .const a, .const b => a == b
  | .ref f1 s1, .ref f2 s2 => f1 == f2 && s1 == s2
  | .splice p1, .splice p2 => Expr.beqL p1 p2
  | .single e1 s1, .single e2 s2 => Expr.beq e1 e2 && s1 == s2
  | .dflt l1 r1 s1, .dflt l2 r2 s2 => Expr.beq l1 l2 && Expr.beq r1 r2 && s1 == s2
  | .alt l1 r1 s1, .alt l2 r2 s2 => Expr.beq l1 l2 && Expr.beq r1 r2 && s1 == s2
  | .errx l1 r1 s1, .errx l2 r2 s2 => Expr.beq l1 l2 && Expr.beq r1 r2 && s1 == s2
  | _, _ => false
def Expr.beqL : List Expr → List Expr → Bool
  | [], [] => true
  | a :: r1, b :: r2 => Expr.beq a b && Expr.beqL r1 r2
  | _, _ => false
end

mutual
theorem Expr.eq_of_beq : ∀ (a b : Expr), Expr.beq a b = true → a = b
  | .const a, .const b, h => by simp [Expr.beq] at h; simp [h]
  | .ref f1 s1, .ref f2 s2, h => by simp [Expr.beq] at h; simp [h]
  | .splice p1, .splice p2, h => by
    simp only [Expr.beq] at h; rw [Expr.eq_of_beqL p1 p2 h]
  | .single e1 s1, .single e2 s2, h => by
    simp only [Expr.beq, Bool.and_eq_true, beq_iff_eq] at h
    rw [Expr.eq_of_beq e1 e2 h.1, h.2]
  | .dflt l1 r1 s1, .dflt l2 r2 s2, h => by
    simp only [Expr.beq, Bool.and_eq_true, beq_iff_eq] at h
    rw [Expr.eq_of_beq l1 l2 h.1.1, Expr.eq_of_beq r1 r2 h.1.2, h.2]
  | .alt l1 r1 s1, .alt l2 r2 s2, h => by
    simp only [Expr.beq, Bool.and_eq_true, beq_iff_eq] at h
    rw [Expr.eq_of_beq l1 l2 h.1.1, Expr.eq_of_beq r1 r2 h.1.2, h.2]
  | .errx l1 r1 s1, .errx l2 r2 s2, h => by
    simp only [Expr.beq, Bool.and_eq_true, beq_iff_eq] at h
    rw [Expr.eq_of_beq l1 l2 h.1.1, Expr.eq_of_beq r1 r2 h.1.2, h.2]
  | .const _, .ref .., h | .const _, .splice _, h | .const _, .single .., h
  | .const _, .dflt .., h | .const _, .alt .., h | .const _, .errx .., h
  | .ref .., .const _, h | .ref .., .splice _, h | .ref .., .single .., h
  | .ref .., .dflt .., h | .ref .., .alt .., h | .ref .., .errx .., h
  | .splice _, .const _, h | .splice _, .ref .., h | .splice _, .single .., h
  | .splice _, .dflt .., h | .splice _, .alt .., h | .splice _, .errx .., h
  | .single .., .const _, h | .single .., .ref .., h | .single .., .splice _, h
  | .single .., .dflt .., h | .single .., .alt .., h | .single .., .errx .., h
  | .dflt .., .const _, h | .dflt .., .ref .., h | .dflt .., .splice _, h
  | .dflt .., .single .., h | .dflt .., .alt .., h | .dflt .., .errx .., h
  | .alt .., .const _, h | .alt .., .ref .., h | .alt .., .splice _, h
  | .alt .., .single .., h | .alt .., .dflt .., h | .alt .., .errx .., h
  | .errx .., .const _, h | .errx .., .ref .., h | .errx .., .splice _, h
  | .errx .., .single .., h | .errx .., .dflt .., h | .errx .., .alt .., h => by
    simp [Expr.beq] at h
theorem Expr.eq_of_beqL : ∀ (a b : List Expr), Expr.beqL a b = true → a = b
  | [], [], _ => rfl
  | a :: r1, b :: r2, h => by
    simp only [Expr.beqL, Bool.and_eq_true] at h
    rw [Expr.eq_of_beq a b h.1, Expr.eq_of_beqL r1 r2 h.2]
  | [], _ :: _, h | _ :: _, [], h => by simp [Expr.beqL] at h
end

mutual
theorem Expr.beq_refl : ∀ (a : Expr), Expr.beq a a = true
  | .const _ => by simp [Expr.beq]
  | .ref .. => by simp [Expr.beq]
  | .splice p => by simp [Expr.beq, Expr.beqL_refl p]
  | .single e _ => by simp [Expr.beq, Expr.beq_refl e]
  | .dflt l r _ => by simp [Expr.beq, Expr.beq_refl l, Expr.beq_refl r]
  | .alt l r _ => by simp [Expr.beq, Expr.beq_refl l, Expr.beq_refl r]
  | .errx l r _ => by simp [Expr.beq, Expr.beq_refl l, Expr.beq_refl r]
theorem Expr.beqL_refl : ∀ (a : List Expr), Expr.beqL a a = true
  | [] => rfl
  | a :: r => by simp [Expr.beqL, Expr.beq_refl a, Expr.beqL_refl r]
end

instance : DecidableEq Expr := fun a b =>
  if h : Expr.beq a b = true then isTrue (Expr.eq_of_beq a b h)
  else isFalse (fun e => h (e ▸ Expr.beq_refl a))

mutual
def Val.beq : Val → Val → Bool
  | .prim p, .prim q => p == q
  | .dyn i e, .dyn j f => i == j && e == f
  | .sub d1 a1 hd1 ha1, .sub d2 a2 hd2 ha2 =>
    Val.beqD d1 d2 && Val.beqA a1 a2 && hd1 == hd2 && ha1 == ha2
  | _, _ => false
def Val.beqD : List (String × Val) → List (String × Val) → Bool
  | [], [] => true
  | (k1, v1) :: r1, (k2, v2) :: r2 => k1 == k2 && Val.beq v1 v2 && Val.beqD r1 r2
  | _, _ => false
def Val.beqA : List Val → List Val → Bool
  | [], [] => true
  | v1 :: r1, v2 :: r2 => Val.beq v1 v2 && Val.beqA r1 r2
  | _, _ => false
end

mutual
theorem Val.eq_of_beq : ∀ (a b : Val), Val.beq a b = true → a = b
  | .prim p, .prim q, h => by simp [Val.beq] at h; simp [h]
  | .dyn i e, .dyn j f, h => by simp [Val.beq] at h; simp [h]
  | .sub d1 a1 hd1 ha1, .sub d2 a2 hd2 ha2, h => by
    simp only [Val.beq, Bool.and_eq_true, beq_iff_eq] at h
    rw [Val.eq_of_beqD d1 d2 h.1.1.1, Val.eq_of_beqA a1 a2 h.1.1.2, h.1.2, h.2]
  | .prim _, .dyn .., h | .prim _, .sub .., h | .dyn .., .prim _, h
  | .dyn .., .sub .., h | .sub .., .prim _, h | .sub .., .dyn .., h => by simp [Val.beq] at h
theorem Val.eq_of_beqD : ∀ (a b : List (String × Val)), Val.beqD a b = true → a = b
  | [], [], _ => rfl
  | (k1, v1) :: r1, (k2, v2) :: r2, h => by
    simp only [Val.beqD, Bool.and_eq_true, beq_iff_eq] at h
    rw [h.1.1, Val.eq_of_beq v1 v2 h.1.2, Val.eq_of_beqD r1 r2 h.2]
  | [], _ :: _, h | _ :: _, [], h => by simp [Val.beqD] at h
theorem Val.eq_of_beqA : ∀ (a b : List Val), Val.beqA a b = true → a = b
  | [], [], _ => rfl
  | v1 :: r1, v2 :: r2, h => by
    simp only [Val.beqA, Bool.and_eq_true] at h
    rw [Val.eq_of_beq v1 v2 h.1, Val.eq_of_beqA r1 r2 h.2]
  | [], _ :: _, h | _ :: _, [], h => by simp [Val.beqA] at h
end

mutual
theorem Val.beq_refl : ∀ (a : Val), Val.beq a a = true
  | .prim _ => by simp [Val.beq]
  | .dyn .. => by simp [Val.beq]
  | .sub d a _ _ => by simp [Val.beq, Val.beqD_refl d, Val.beqA_refl a]
theorem Val.beqD_refl : ∀ (a : List (String × Val)), Val.beqD a a = true
  | [] => rfl
  | (_, v) :: r => by simp [Val.beqD, Val.beq_refl v, Val.beqD_refl r]
theorem Val.beqA_refl : ∀ (a : List Val), Val.beqA a a = true
  | [] => rfl
  | v :: r => by simp [Val.beqA, Val.beq_refl v, Val.beqA_refl r]
end

instance : DecidableEq Val := fun a b =>
  if h : Val.beq a b = true then isTrue (Val.eq_of_beq a b h)
  else isFalse (fun e => h (e ▸ Val.beq_refl a))

end Ucfg
