import Ucfg.Model.Tree
namespace Ucfg

/-- the generic (`interface{}`) view that Unpack produces: bool, int64, uint64,
float64, string, []interface{}, map[string]interface{}, nil -/
inductive Data where
  | nil
  | bool (b : Bool)
  | int (i : Int)
  | uint (n : Nat)
  | float (bits : Nat)
  | str (s : String)
  | arr (l : List Data)
  | map (m : List (String × Data))
  deriving Repr, Inhabited

/-- a Go input value handed to NewFrom/Merge, with its representation erased
(typed vs interface elements, pointers, arrays vs slices are not distinguished:
the correspondence check feeds the real code all of them for one `GoData`). -/
inductive GoData where
  | nil                                   -- nil interface / nil pointer
  | bool (b : Bool)
  | int (i : Int)                         -- any signed integer kind
  | uint (n : Nat)                        -- any unsigned integer kind
  | float (bits : Nat)
  | str (s : String)
  | dur (text : String)                   -- time.Duration, with d.String()
  | regex (text : String)                 -- regexp.Regexp, with r.String()
  | list (l : List GoData)                -- slice or array (nil slice = [])
  | map (m : List (String × GoData))      -- entries in iteration order (nil map = [])
  | strct (fs : List (String × String × GoData))   -- (Go field name, config tag, value)
  | cfg (v : Val)                         -- an existing *Config / Config with content v
  | unsupported                           -- chan, func, complex, …
  | badKeyMap                             -- map whose key type is neither string nor interface
  deriving Repr, Inhabited

end Ucfg
