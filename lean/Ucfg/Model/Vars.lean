import Ucfg.Model.Path
/-
  variables.go: the lexer (as the sequential function the goroutine computes),
  parseVarExp with its explicit stack, parseState.finalize.
-/
namespace Ucfg
open Outcome

inductive Tok where
  | opn | cls | sep (op : String) | str (s : String)
  deriving DecidableEq, Repr, Inhabited

def strTok (pend : List Char) : List Tok :=
  if pend.isEmpty then [] else [.str (String.ofList pend)]

/-- variables.go lexer.  `vc` = varcount, `pend` = the text of `content` before the scan offset. -/
def lexGo (vc : Nat) (pend : List Char) : List Char → List Tok
  | [] => strTok pend
  | c :: r =>
    if c == '$' then
      match r with
      | [] => strTok (pend ++ ['$'])
      | '{' :: r' => strTok pend ++ [.opn] ++ lexGo (vc + 1) [] r'
      | '$' :: r' => lexGo vc (pend ++ ['$']) r'
      | '}' :: r' => lexGo vc (pend ++ ['}']) r'
      | c2 :: r2 => lexGo vc (pend ++ ['$']) (c2 :: r2)
    else if vc > 0 && c == ':' then
      match r with
      | [] => strTok (pend ++ [':'])
      | '+' :: r' => strTok pend ++ [.sep ":+"] ++ lexGo vc [] r'
      | '?' :: r' => strTok pend ++ [.sep ":?"] ++ lexGo vc [] r'
      | c2 :: r2 => strTok pend ++ [.sep ":"] ++ lexGo vc [] (c2 :: r2)
    else if vc > 0 && c == '}' then
      strTok pend ++ [.cls] ++ lexGo (vc - 1) [] r
    else lexGo vc (pend ++ [c]) r

def lexer (s : String) : List Tok := lexGo 0 [] s.toList

/-- parseState -/
structure PState where
  right : Bool := false
  isvar : Bool := false
  op : String := ""
  l : List Expr := []
  r : List Expr := []
  deriving Repr, Inhabited

/-- addString -/
def addString (ps : List Expr) (s : String) : List Expr :=
  match ps.getLast? with
  | some (.const c) => ps.dropLast ++ [.const (c ++ s)]
  | _ => ps ++ [.const s]

def PState.add (st : PState) (e : Expr) : PState :=
  if st.right then { st with r := st.r ++ [e] } else { st with l := st.l ++ [e] }

def PState.addStr (st : PState) (s : String) : PState :=
  if st.right then { st with r := addString st.r s } else { st with l := addString st.l s }

structure VarCfg where
  sep : String
  maxIdx : Int
  enk : Bool
  esc : Bool

def extractPieces : List Expr → Expr
  | [] => .const ""
  | [p] => p
  | ps => .splice ps

/-- parseState.finalize -/
def PState.finalize (st : PState) (c : VarCfg) : Outcome Expr :=
  if !st.isvar then raiseRaw .other
  else if st.l.isEmpty then raiseRaw .other
  else if !st.right then
    match st.l with
    | [.const s] => .ok (.ref (parsePath s c.sep c.maxIdx c.enk c.esc) c.sep)
    | ps => .ok (.single (.splice ps) c.sep)
  else
    let l := extractPieces st.l
    let r := extractPieces st.r
    if st.op == ":" then .ok (.dflt l r c.sep)
    else if st.op == ":+" then .ok (.alt l r c.sep)
    else if st.op == ":?" then .ok (.errx l r c.sep)
    else .panic "makeOpExpansion: unknown operator"

/-- parseVarExp; the stack is kept top-first -/
def parseToks (c : VarCfg) : List PState → List Tok → Outcome Expr
  | stack, [] =>
    match stack with
    | [base] =>
      match base.l with
      | [e] => .ok e
      | ps => .ok (.splice ps)
    | [] => raiseRaw .other
    | _ => raiseRaw .other        -- missing '}'
  | stack, tok :: rest =>
    match tok with
    | .opn => parseToks c ({ isvar := true } :: stack) rest
    | .cls =>
      match stack with
      | [] => .panic "parseVarExp: stack[len(stack)-1] on empty stack"
      | top :: more =>
        match top.finalize c with
        | .ok piece =>
          match more with
          | [] => .panic "parseVarExp: stack[len(stack)-1] on empty stack"
          | nxt :: more' => parseToks c (nxt.add piece :: more') rest
        | .err e => .err e
        | .panic s => .panic s
        | .fuel => .fuel
    | .sep op =>
      match stack with
      | [] => .panic "parseVarExp: stack[len(stack)-1] on empty stack"
      | top :: more =>
        if !top.isvar then raiseRaw .other
        else if top.right then parseToks c (top.addStr op :: more) rest
        else parseToks c ({ top with right := true, op := op } :: more) rest
    | .str s =>
      match stack with
      | [] => .panic "parseVarExp: stack[len(stack)-1] on empty stack"
      | top :: more => parseToks c (top.addStr s :: more) rest

/-- parseSplice -/
def parseSplice (s : String) (c : VarCfg) : Outcome Expr :=
  parseToks c [{}] (lexer s)

def Opts.varCfg (o : Opts) : VarCfg := ⟨o.pathSep, o.maxIdx, o.enableNumKeys, o.escapePath⟩

end Ucfg
