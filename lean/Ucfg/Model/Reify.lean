import Ucfg.Model.Data
import Ucfg.Model.Path
/-
  types.go (cfgSub).reify and friends on reference-free trees: the generic view.
-/
namespace Ucfg
open Outcome

def Prim.toData : Prim → Data
  | .nil => .nil
  | .bool b => .bool b
  | .int i => .int i
  | .uint n => .uint n
  | .float b => .float b
  | .str s => .str s

mutual
/-- value.reify on a reference-free tree -/
def reifyP : Val → Outcome Data
  | .prim p => .ok p.toData
  | .dyn _ _ => raiseRaw .other
  | .sub d a _ ha =>
    match d, a with
    | [], [] => if ha then .ok (.arr []) else .ok .nil
    | (k, v) :: r, [] => do let m ← reifyD ((k, v) :: r); .ok (.map m)
    | [], x :: r => do let l ← reifyA (x :: r); .ok (.arr l)
    | (k, v) :: r, x :: r' => do
      let m ← reifyD ((k, v) :: r)
      let l ← reifyIdx 0 (x :: r')
      .ok (.map (m ++ l))
def reifyD : List (String × Val) → Outcome (List (String × Data))
  | [] => .ok []
  | (k, v) :: r => do
    let x ← reifyP v
    let rest ← reifyD r
    .ok ((k, x) :: rest)
def reifyA : List Val → Outcome (List Data)
  | [] => .ok []
  | v :: r => do
    let x ← reifyP v
    let rest ← reifyA r
    .ok (x :: rest)
/-- the array part of a mixed node, rendered under its index keys -/
def reifyIdx (i : Nat) : List Val → Outcome (List (String × Data))
  | [] => .ok []
  | v :: r => do
    let x ← reifyP v
    let rest ← reifyIdx (i + 1) r
    .ok ((toString i, x) :: rest)
end

/-- what the harness observes of a whole config: Unpack into map[string]interface{}
(dictionary part) and into []interface{} (array part) -/
structure View where
  isDict : Bool
  isArray : Bool
  dict : List (String × Data)
  arr : List Data
  deriving Repr

def viewP (c : Val) : Outcome View :=
  match c with
  | .sub d a hd ha => do
    let m ← reifyD d
    let l ← reifyA a
    .ok { isDict := hd, isArray := ha, dict := m, arr := l }
  | _ => raise .typeMismatch

end Ucfg
