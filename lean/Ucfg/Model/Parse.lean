import Ucfg.Base.IntLit
import Ucfg.Model.Data
import Ucfg.Model.Opts
import Ucfg.Model.Conv
/-
  parse/parse.go: the flag-value parser (superset of JSON), exactly, on
  character lists (every delimiter it looks for is ASCII).  Every `p.input[0]`
  of the Go code is a checked access here (`panic` when the input is empty), so
  "never panics" is a theorem and not a consequence of totalisation.

  `fuel` bounds the recursion (nesting and element loops); Props/C17 proves that
  `4 * input.length + 8` is used; sufficiency is checked differentially (a `fuel` result is a reported mismatch).
-/
namespace Ucfg.Parse
open Ucfg Outcome

/-- unicode.IsSpace -/
def isSpace (c : Char) : Bool :=
  c == '\t' || c == '\n' || c == '\x0b' || c == '\x0c' || c == '\r' || c == ' ' ||
  c.toNat == 0x85 || c.toNat == 0xA0 || c.toNat == 0x1680 ||
  (0x2000 ≤ c.toNat && c.toNat ≤ 0x200A) ||
  c.toNat == 0x2028 || c.toNat == 0x2029 || c.toNat == 0x202F || c.toNat == 0x205F || c.toNat == 0x3000

def trimLeft : List Char → List Char
  | [] => []
  | c :: r => if isSpace c then trimLeft r else c :: r

def trimRight (s : List Char) : List Char := (trimLeft s.reverse).reverse
def trimSpace (s : List Char) : List Char := trimRight (trimLeft s)

/-- strings.IndexAny(s, stop): split at the first character contained in `stop` -/
def splitAtAny (stop : List Char) : List Char → List Char → List Char × Option (List Char)
  | acc, [] => (acc.reverse, none)
  | acc, c :: r => if stop.contains c then (acc.reverse, some (c :: r)) else splitAtAny stop (c :: acc) r

def unhex (c : Char) : Option Nat :=
  if '0' ≤ c && c ≤ '9' then some (c.toNat - '0'.toNat)
  else if 'a' ≤ c && c ≤ 'f' then some (c.toNat - 'a'.toNat + 10)
  else if 'A' ≤ c && c ≤ 'F' then some (c.toNat - 'A'.toNat + 10)
  else none

def hexN : Nat → List Char → Nat → Option (Nat × List Char)
  | 0, s, v => some (v, s)
  | n+1, c :: r, v => match unhex c with
    | some x => hexN n r (v * 16 + x)
    | none => none
  | _+1, [], _ => none

def validRune (v : Nat) : Bool := v < 0xD800 || (0xE000 ≤ v && v ≤ 0x10FFFF)

inductive UQ where
  | ok (s : List Char)
  | syntax
  | nonUtf8          -- \x80..\xff or octal ≥ 0200: the Go result is not valid UTF-8 (outside the model)
  deriving Repr, DecidableEq

/-- scanner state of strconv.Unquote's loop (UnquoteChar), one character at a time -/
inductive UQState where
  | norm                                  -- between characters
  | esc                                   -- just after a backslash
  | hex (left : Nat) (v : Nat) (isX : Bool)   -- inside \x / \u / \U, `left` digits still to read
  | oct (left : Nat) (v : Nat)            -- inside an octal escape
  deriving Repr, DecidableEq

/-- the simple one-character escapes of UnquoteChar (quote = '"') -/
def simpleEscape (e : Char) : Option Char :=
  if e == 'a' then some '\x07'
  else if e == 'b' then some '\x08'
  else if e == 'f' then some '\x0c'
  else if e == 'n' then some '\n'
  else if e == 'r' then some '\r'
  else if e == 't' then some '\t'
  else if e == 'v' then some '\x0b'
  else if e == '\\' then some '\\'
  else if e == '"' then some '"'
  else none

/-- body of strconv.Unquote for a double-quoted literal, after the opening quote;
succeeds only if the first unescaped quote is the last character -/
def unquoteBody : UQState → List Char → List Char → UQ
  | .norm, _, [] => .syntax                              -- no terminating quote
  | .norm, acc, c :: r =>
    if c == '"' then (if r.isEmpty then .ok acc.reverse else .syntax)
    else if c == '\n' then .syntax
    else if c == '\\' then unquoteBody .esc acc r
    else unquoteBody .norm (c :: acc) r
  | .esc, _, [] => .syntax
  | .esc, acc, e :: r =>
    match simpleEscape e with
    | some c => unquoteBody .norm (c :: acc) r
    | none =>
      if e == 'x' then unquoteBody (.hex 2 0 true) acc r
      else if e == 'u' then unquoteBody (.hex 4 0 false) acc r
      else if e == 'U' then unquoteBody (.hex 8 0 false) acc r
      else if '0' ≤ e && e ≤ '7' then unquoteBody (.oct 2 (e.toNat - 48)) acc r
      else .syntax
  | .hex _ _ _, _, [] => .syntax
  | .hex left v isX, acc, c :: r =>
    match unhex c with
    | none => .syntax
    | some x =>
      let v' := v * 16 + x
      if left ≤ 1 then
        if isX then (if v' < 128 then unquoteBody .norm (Char.ofNat v' :: acc) r else .nonUtf8)
        else if validRune v' then unquoteBody .norm (Char.ofNat v' :: acc) r else .syntax
      else unquoteBody (.hex (left - 1) v' isX) acc r
  | .oct _ _, _, [] => .syntax
  | .oct left v, acc, c :: r =>
    if '0' ≤ c && c ≤ '7' then
      let v' := v * 8 + (c.toNat - 48)
      if left ≤ 1 then
        if v' > 255 then .syntax
        else if v' < 128 then unquoteBody .norm (Char.ofNat v' :: acc) r else .nonUtf8
      else unquoteBody (.oct (left - 1) v') acc r
    else .syntax

/-- strconv.Unquote on `"` … (the argument includes both quotes) -/
def unquote : List Char → UQ
  | '"' :: r => if r.isEmpty then .syntax else unquoteBody .norm [] r
  | _ => .syntax

/-- number of backslashes at the end of `pre` (reversed prefix = scanning backwards) -/
def trailingBackslashes : List Char → Nat
  | '\\' :: r => trailingBackslashes r + 1
  | _ => 0

/-- parseStringDQuote's scan: the literal (with quotes) up to the first `"` that is
preceded by an even number of backslashes, and the rest.  `pre` is the reversed text since the opening quote. -/
def scanDQ : List Char → List Char → Option (List Char × List Char)
  | _, [] => none
  | pre, c :: r =>
    if c == '"' && trailingBackslashes pre % 2 == 0 then some (('"' :: pre.reverse) ++ ['"'], r)
    else scanDQ (c :: pre) r

/-- strings.IndexByte(in[1:], '\'') -/
def scanSQ : List Char → List Char → Option (List Char × List Char)
  | _, [] => none
  | acc, c :: r => if c == '\'' then some (acc.reverse, r) else scanSQ (c :: acc) r


def parseStringDQuote (inp : List Char) : Outcome (String × List Char) :=
  match inp with
  | [] => .panic "parseStringDQuote: in[off:] on empty input"
  | _ :: body =>
    match scanDQ [] body with
    | none => raiseRaw .other
    | some (lit, rest) =>
      match unquote lit with
      | .ok s => .ok (String.ofList s, rest)
      | .syntax => raiseRaw .other
      | .nonUtf8 => .err { reason := .other, typed := false, msg := some "MODEL-UNSUPPORTED non-UTF-8 escape" }

def parseStringSQuote (inp : List Char) : Outcome (String × List Char) :=
  match inp with
  | [] => .panic "parseStringSQuote: in[1:] on empty input"
  | _ :: body =>
    match scanSQ [] body with
    | none => raiseRaw .other
    | some (s, rest) => .ok (String.ofList s, rest)

def parseNonQuotedString (stop : List Char) (inp : List Char) : Outcome (String × List Char) :=
  match splitAtAny stop [] inp with
  | (_, none) => .ok (String.ofList (trimSpace inp), [])
  | (content, some rest) =>
    if content.isEmpty then raiseRaw .other     -- idx == 0: "unexpected '…'"
    else .ok (String.ofList (trimSpace content), rest)

/-- parseBoolValue -/
def parseBoolValue (s : String) : Option Bool :=
  if s == "t" || s == "T" || s == "true" || s == "TRUE" || s == "True" || s == "on" || s == "ON" then some true
  else if s == "f" || s == "F" || s == "false" || s == "FALSE" || s == "False" || s == "off" || s == "OFF" then some false
  else none

def primitiveOf (std : Stdlib) (content : String) : Data :=
  if content == "null" then .nil
  else match parseBoolValue content with
    | some b => .bool b
    | none =>
      match IntLit.parseUintS content with
      | some n => .uint n
      | none =>
        match IntLit.parseIntS content with
        | some i => .int i
        | none =>
          match std.parseFloat content with
          | some f => .float f
          | none => .str content

def parsePrimitive (std : Stdlib) (stop : List Char) (inp : List Char) : Outcome (Data × List Char) := do
  let (content, rest) ← parseNonQuotedString stop inp
  .ok (primitiveOf std content, rest)

def toplevelStop : List Char := [',']
def arrayElemStop : List Char := [',', ']']
def objKeyStop : List Char := [':']
def objValueStop : List Char := [',', '}']

def parseKey (inp : List Char) : Outcome (String × List Char) :=
  match inp with
  | [] => raiseRaw .other
  | '"' :: _ => parseStringDQuote inp
  | '\'' :: _ => parseStringSQuote inp
  | _ => parseNonQuotedString objKeyStop inp

/-- insert into the object under construction (`O[k] = v`: the last definition wins);
kept sorted so that results are canonical -/
def objSet : List (String × Data) → String → Data → List (String × Data)
  | [], k, v => [(k, v)]
  | (k', v') :: r, k, v =>
    if k = k' then (k', v) :: r
    else if k < k' then (k, v) :: (k', v') :: r
    else (k', v') :: objSet r k v

mutual
/-- parseValue -/
def parseValue (std : Stdlib) (cfg : ParseCfg) : Nat → List Char → List Char → Outcome (Data × List Char)
  | 0, _, _ => Outcome.fuel
  | fu+1, stop, inp0 =>
    let inp := trimLeft inp0
    match inp with
    | [] => .ok (.nil, [])
    | c :: _ =>
      if c == '[' && cfg.array then parseArray std cfg fu inp
      else if c == '{' && cfg.object then parseObj std cfg fu inp
      else if c == '"' && cfg.dq then do
        let (s, rest) ← parseStringDQuote inp
        .ok (.str s, rest)
      else if c == '\'' && cfg.sq then do
        let (s, rest) ← parseStringSQuote inp
        .ok (.str s, rest)
      else parsePrimitive std stop inp
/-- parseArray: `inp` starts with '[' -/
def parseArray (std : Stdlib) (cfg : ParseCfg) : Nat → List Char → Outcome (Data × List Char)
  | 0, _ => Outcome.fuel
  | fu+1, inp =>
    match inp with
    | [] => .panic "parseArray: p.input[1:] on empty input"
    | _ :: rest => do
      let (vals, rest') ← arrayLoop std cfg fu [] rest
      .ok ((if vals.isEmpty then .nil else .arr vals), rest')
def arrayLoop (std : Stdlib) (cfg : ParseCfg) : Nat → List Data → List Char → Outcome (List Data × List Char)
  | 0, _, _ => Outcome.fuel
  | fu+1, acc, inp0 =>
    match trimLeft inp0 with
    | [] => raiseRaw .other                  -- "array closing ']' missing" (guarded p.input[0])
    | c :: rest =>
      if c == ']' then .ok (acc, rest)
      else do
        let (v, r1) ← parseValue std cfg fu arrayElemStop (c :: rest)
        match trimLeft r1 with
        | [] => raiseRaw .other
        | nxt :: r2 =>
          if nxt == ']' then .ok (acc ++ [v], r2)
          else if nxt == ',' then arrayLoop std cfg fu (acc ++ [v]) r2
          else raiseRaw .other
/-- parseObj: `inp` starts with '{' -/
def parseObj (std : Stdlib) (cfg : ParseCfg) : Nat → List Char → Outcome (Data × List Char)
  | 0, _ => Outcome.fuel
  | fu+1, inp =>
    match inp with
    | [] => .panic "parseObj: p.input[1:] on empty input"
    | _ :: rest => do
      let (o, rest') ← objLoop std cfg fu [] rest
      .ok ((if o.isEmpty then .nil else .map o), rest')
def objLoop (std : Stdlib) (cfg : ParseCfg) : Nat → List (String × Data) → List Char → Outcome (List (String × Data) × List Char)
  | 0, _, _ => Outcome.fuel
  | fu+1, acc, inp0 =>
    match trimLeft inp0 with
    | [] => raiseRaw .other
    | c :: rest =>
      if c == '}' then .ok (acc, rest)
      else do
        let (k, r1) ← parseKey (c :: rest)
        match trimLeft r1 with
        | ':' :: r2 => do
          let (v, r3) ← parseValue std cfg fu objValueStop r2
          match trimLeft r3 with
          | [] => raiseRaw .other
          | nxt :: r4 =>
            if nxt == '}' then .ok (objSet acc k v, r4)
            else if nxt == ',' then objLoop std cfg fu (objSet acc k v) r4
            else raiseRaw .other
        | _ => raiseRaw .other
end

/-- flagParser.parse: the top-level comma list -/
def topLoop (std : Stdlib) (cfg : ParseCfg) : Nat → List Data → List Char → Outcome (List Data)
  | 0, _, _ => Outcome.fuel
  | fu+1, acc, inp => do
    let stop := if cfg.ignoreCommas then [] else toplevelStop
    let (v, r1) ← parseValue std cfg (fu+1) stop inp
    match trimLeft r1 with
    | [] => .ok (acc ++ [v])
    | c :: r2 =>
      -- IgnoreCommas: commas build no arrays, nothing may follow a complete value
      if c == ',' && !cfg.ignoreCommas then topLoop std cfg fu (acc ++ [v]) r2
      else raiseRaw .other

/-- parse.ValueWithConfig -/
def valueWithConfig (std : Stdlib) (content : String) (cfg : ParseCfg) : Outcome Data :=
  if !cfg.array && cfg.object then raiseRaw .other
  else
    let inp := trimSpace content.toList
    match topLoop std cfg (4 * inp.length + 8) [] inp with
    | .ok [] => .ok .nil
    | .ok [v] => .ok v
    | .ok vs => .ok (.arr vs)
    | .err e => .err e
    | .panic s => .panic s
    | .fuel => .fuel

def value (std : Stdlib) (content : String) : Outcome Data := valueWithConfig std content {}

def defaultConfig : ParseCfg := {}
def envConfig : ParseCfg := { object := false }
def noopConfig : ParseCfg := { array := false, object := false, dq := false, sq := false, ignoreCommas := true }

end Ucfg.Parse
