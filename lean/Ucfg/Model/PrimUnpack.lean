import Ucfg.Model.Conv
/-
  reify.go doReifyPrimitive / reifyInt / reifyUint / reifyFloat / reifyBool /
  reifyDuration for a primitive (non-reference) setting and a primitive target kind.
-/
namespace Ucfg
open Outcome

/-- primitive target kinds (pointer-to and named variants behave identically: reifyPrimitive
works on the base type and `pointerize`s / `Convert`s the result) -/
inductive Kind where
  | bool
  | int (bits : Nat)        -- 8, 16, 32, 64 (Go `int` is 64 bits here)
  | uint (bits : Nat)
  | float (bits : Nat)      -- 32, 64
  | string
  | duration
  deriving DecidableEq, Repr, Inhabited

/-- the value stored in the target -/
inductive Scalar where
  | bool (b : Bool)
  | int (i : Int)
  | uint (n : Nat)
  | float (bits : Nat)      -- the float64 bits of the stored value (float32 widened exactly)
  | str (s : String)
  | dur (ns : Int)
  deriving DecidableEq, Repr, Inhabited

/-- reflect.Value.OverflowInt for an n-bit signed kind -/
def overflowInt (bits : Nat) (i : Int) : Bool := !(-(2 : Int)^(bits-1) ≤ i ∧ i < (2 : Int)^(bits-1))
/-- reflect.Value.OverflowUint -/
def overflowUint (bits : Nat) (n : Nat) : Bool := !(n < 2^bits)

/-- math.MaxFloat32 = (2^24 - 1) · 2^104 -/
def maxFloat32Num : Nat := (2^24 - 1) * 2^104

/-- reflect.Value.OverflowFloat for float32: MaxFloat32 < |x| ≤ MaxFloat64 -/
def overflowFloat32 (b : Nat) : Bool :=
  match F64.decode b with
  | .fin _ m e => F64.finGtInt false m e maxFloat32Num
  | _ => false

def maxDurationSeconds : Int := (2^63 - 1) / 1000000000

/-- bits of float64(time.Second) = 1e9 -/
def secondBits : Nat := 0x41CDCD6500000000

/-- reifyDuration (errors are wrapped later) -/
def reifyDuration (std : Stdlib) : Prim → Outcome Int
  | .int i =>
    if i > maxDurationSeconds || i < -maxDurationSeconds then raiseRaw .overflow
    else .ok (i * 1000000000)
  | .uint u =>
    if (u : Int) > maxDurationSeconds then raiseRaw .overflow else .ok ((u : Int) * 1000000000)
  | .float b =>
    let ns := F64.mul b secondBits
    let f := F64.decode ns
    if f.isNaN || F64.ltInt f minI64 || F64.geInt f twoP63 then raiseRaw .overflow
    else .ok (goInt64OfFloat f)
  | .str s => match std.parseDuration s with
    | some d => .ok d
    | none => raiseRaw .other
  | .bool b => match std.parseDuration (if b then "true" else "false") with
    | some d => .ok d
    | none => raiseRaw .other
  | .nil => match std.parseDuration "null" with
    | some d => .ok d
    | none => raiseRaw .other

/-- doReifyPrimitive for a non-nil primitive value -/
def reifyPrim (std : Stdlib) (k : Kind) (p : Prim) : Outcome Scalar :=
  match k with
  | .string => wrap (p.toStr std >>= fun s => .ok (.str s))
  | .duration => wrap (reifyDuration std p >>= fun d => .ok (.dur d))
  | .int bits => wrap (do
      let i ← p.toInt
      if overflowInt bits i then raiseRaw .overflow else .ok (.int i))
  | .uint bits => wrap (do
      let n ← p.toUint
      if overflowUint bits n then raiseRaw .overflow else .ok (.uint n))
  | .float bits => wrap (do
      let f ← p.toFloat std
      if bits == 32 then
        if overflowFloat32 f then raiseRaw .overflow else .ok (.float (F64.toF32 f))
      else .ok (.float f))
  | .bool => wrap (p.toBool >>= fun b => .ok (.bool b))
where
  /-- raiseConversion / raiseInvalidDuration: a typed error whose reason is the cause -/
  wrap {α : Type} : Outcome α → Outcome α
    | .err e => .err { e with typed := true }
    | r => r

end Ucfg
