import Ucfg.Model.Normalize
import Ucfg.Model.Reify
/-
  getset.go / ucfg.go: the low-level API as steps of a state machine over one root
  tree (reference-free), with child handles.  A handle is the absolute field path
  of the node it was obtained at; the operation sequences the harness generates
  never detach a node that a live handle points to (the identity-level model,
  Model/Forest.lean, lifts that restriction).
-/
namespace Ucfg
open Outcome

inductive GetKind where
  | bool | int | uint | float | string
  deriving DecidableEq, Repr, Inhabited

inductive Op where
  | set (h : Nat) (name : String) (idx : Int) (v : Prim) (o : Opts)
  | setChild (h : Nat) (name : String) (idx : Int) (c : Val) (o : Opts)
  | pathOf (h : Nat)                                              -- Path(".")
  | setChildNil (h : Nat)                                         -- SetChild(name, idx, nil)
  | setChildHandle (h : Nat) (k : Nat) (name : String) (idx : Int) (o : Opts)   -- SetChild with the config behind handle k as the child
  | remove (h : Nat) (name : String) (idx : Int) (o : Opts)
  | merge (h : Nat) (frm : GoData) (o : Opts)
  | child (h : Nat) (name : String) (idx : Int) (o : Opts)
  | get (h : Nat) (k : GetKind) (name : String) (idx : Int) (o : Opts)
  | has (h : Nat) (name : String) (idx : Int) (o : Opts)
  | count (h : Nat) (name : String)
  | info (h : Nat)
  deriving Repr, Inhabited

inductive OpOut where
  | unit
  | bool (b : Bool)
  | int (i : Int)
  | uint (n : Nat)
  | float (b : Nat)
  | str (s : String)
  | handle (k : Nat)
  | info (isDict isArray : Bool) (fields : List String)
  deriving Repr, Inhabited

structure OpState where
  root : Val
  handles : List (List Field)        -- handle k ↦ absolute path; handle 0 = root = []
  deriving Repr, Inhabited

def OpState.init (root : Val) : OpState := ⟨root, [[]]⟩

/-- the node a handle's path leads to (through configs only) -/
def nodeAt : Val → List Field → Option Val
  | v, [] => some v
  | .sub d a _ _, f :: rest =>
    match f with
    | .named n => (dget d n).bind (nodeAt · rest)
    | .idx i => if i < 0 then none else (a[i.toNat]?).bind (nodeAt · rest)
  | _, _ :: _ => none

def putAt : Val → List Field → Val → Option Val
  | _, [], n => some n
  | .sub d a hd ha, f :: rest, n =>
    match f with
    | .named k => (dget d k).bind (fun c => (putAt c rest n).map (fun c' => .sub (dset d k c') a hd ha))
    | .idx i => if i < 0 then none else
        (a[i.toNat]?).bind (fun c => (putAt c rest n).map (fun c' => .sub d (a.set i.toNat c') hd ha))
  | _, _ :: _, _ => none

/-- walking `via` below the node at `pre` (path.go cfgPath.SetValue, phase 1) runs into a value that is neither an object
nor missing/null: the walk does not end in a config -/
def blockedWalk (root : Val) (pre : List Field) : List Field → Bool
  | [] => false
  | f :: r =>
    match nodeAt root (pre ++ [f]) with
    | none => false
    | some (.sub ..) => blockedWalk root (pre ++ [f]) r
    | some (.prim .nil) => false
    | some _ => true

def invalidHandle {α : Type} : Outcome α :=
  .err { reason := .other, typed := false, msg := some "MODEL-UNSUPPORTED handle does not address a node" }

/-- cfgSub/cfgPrimitive Len -/
def valLen : Val → Outcome Nat
  | .sub _ a _ ha => .ok (if ha then a.length else 1)
  | .prim .nil => .ok 0
  | .prim _ => .ok 1
  | .dyn _ _ => invalidHandle

/-- conversion errors of the typed getters are wrapped by raiseConversion: typed, reason = cause -/
def wrapConv {α : Type} : Outcome α → Outcome α
  | .err e => .err { e with typed := true }
  | r => r

def getPrim (std : Stdlib) (k : GetKind) (v : Val) : Outcome OpOut :=
  match v with
  | .prim p =>
    match k with
    | .bool => wrapConv (p.toBool >>= fun b => .ok (.bool b))
    | .int => wrapConv (p.toInt >>= fun i => .ok (.int i))
    | .uint => wrapConv (p.toUint >>= fun n => .ok (.uint n))
    | .float => wrapConv (p.toFloat std >>= fun f => .ok (.float f))
    | .string => wrapConv (p.toStr std >>= fun s => .ok (.str s))
  | .sub .. => .err { reason := .typeMismatch }
  | .dyn .. => invalidHandle

/-- one API call through handle h; returns the output and the new state -/
def opStep (std : Stdlib) (s : OpState) (op : Op) : Outcome OpOut × OpState :=
  let withNode (h : Nat) (f : Val → List Field → Outcome OpOut × Option Val) : Outcome OpOut × OpState :=
    match s.handles[h]? with
    | none => (invalidHandle, s)
    | some p =>
      match nodeAt s.root p with
      | none => (invalidHandle, s)
      | some node =>
        match f node p with
        | (out, none) => (out, s)
        | (out, some node') =>
          match putAt s.root p node' with
          | some root' => (out, { s with root := root' })
          | none => (invalidHandle, s)
  match op with
  | .set h name idx v o =>
    withNode h fun node _ =>
      match pathSet tcPlain o (parsePathIdx name idx o) node (.prim v) with
      | .ok n' => (.ok .unit, some n')
      | .err e => (.err e, none)
      | .panic m => (.panic m, none)
      | .fuel => (.fuel, none)
  | .setChild h name idx c o =>
    withNode h fun node _ =>
      match pathSet tcPlain o (parsePathIdx name idx o) node c with
      | .ok n' => (.ok .unit, some n')
      | .err e => (.err e, none)
      | .panic m => (.panic m, none)
      | .fuel => (.fuel, none)
  | .pathOf h =>
    (match s.handles[h]? with
     | some p => (.ok (.str (pathString p ".")), s)
     | none => (invalidHandle, s))
  | .setChildNil _ => (.err { reason := .nilValue }, s)
  | .setChildHandle h k name idx o =>
    -- a config can not become a setting of itself or below itself: every config on the way from the root to the place
    -- the child would be stored at - the receiver's parents, the receiver, and the objects the name leads through
    -- below it - is refused; attaching any other existing config is outside this model (a node attached twice: known
    -- finding D20)
    match s.handles[h]?, s.handles[k]? with
    | some ph, some pk =>
      let via := (parsePathIdx name idx o).dropLast
      -- (when the name runs into a value that is no object, the place does not exist: that is SetValue's error to report)
      if pk.isPrefixOf ph || (pk.isPrefixOf (ph ++ via) && !blockedWalk s.root ph via) then (.err { reason := .cyclic }, s)
      else (invalidHandle, s)
    | _, _ => (invalidHandle, s)
  | .remove h name idx o =>
    let (out, s') := withNode h fun node _ =>
      match pathRemove tcPlain (parsePathIdx name idx o) node with
      | .ok (n', r) => (.ok (.bool r), some n')
      | .err e => (.err e, none)
      | .panic m => (.panic m, none)
      | .fuel => (.fuel, none)
    -- a handle is a live view of its node: when a list element in front of it is removed it follows its node down
    -- (fields.delAt shifts the elements); a handle into the removed element no longer addresses anything in the tree
    match out, s.handles[h]? with
    | .ok (.bool true), some p =>
      let rp := p ++ parsePathIdx name idx o
      (match rp.reverse with
       | .idx i :: revPre =>
         let pre := revPre.reverse
         let shift (hp : List Field) : List Field :=
           if pre.isPrefixOf hp then
             match hp.drop pre.length with
             | .idx j :: rest => if j > i then pre ++ (.idx (j - 1) :: rest) else if j == i then [.named "\x00detached"] else hp
             | _ => hp
           else hp
         (out, { s' with handles := s'.handles.map shift })
       | _ => (out, s'))
    | _, _ => (out, s')
  | .merge h frm o =>
    withNode h fun node _ =>
      match cfgMerge o node frm with
      | .ok n' => (.ok .unit, some n')
      | .err e => (.err e, none)
      | .panic m => (.panic m, none)
      | .fuel => (.fuel, none)
  | .child h name idx o =>
    match s.handles[h]? with
    | none => (invalidHandle, s)
    | some p =>
      match nodeAt s.root p with
      | none => (invalidHandle, s)
      | some node =>
        match getField tcPlain o node name idx with
        | .ok (.sub ..) =>
          (.ok (.handle s.handles.length), { s with handles := s.handles ++ [p ++ parsePathIdx name idx o] })
        | .ok (.prim .nil) => (invalidHandle, s)      -- a fresh, unattached config
        | .ok _ => (.err { reason := .typeMismatch }, s)
        | .err e => (.err e, s)
        | .panic m => (.panic m, s)
        | .fuel => (.fuel, s)
  | .get h k name idx o =>
    withNode h fun node _ =>
      match getField tcPlain o node name idx with
      | .ok v => (getPrim std k v, none)
      | .err e => (.err e, none)
      | .panic m => (.panic m, none)
      | .fuel => (.fuel, none)
  | .has h name idx o =>
    withNode h fun node _ =>
      match pathHas tcPlain (parsePathIdx name idx o) node with
      | .ok b => (.ok (.bool b), none)
      | .err e => (.err e, none)
      | .panic m => (.panic m, none)
      | .fuel => (.fuel, none)
  | .count h name =>
    withNode h fun node _ =>
      if name == "" then (.ok (.int (node.arr.length + node.dict.length)), none)
      else match dget node.dict name with
        | some v => ((valLen v) >>= (fun n => .ok (.int n)), none)
        | none => (.err { reason := .missing }, none)
  | .info h =>
    withNode h fun node _ =>
      match node with
      | .sub d _ hd ha => (.ok (.info hd ha (dkeys d)), none)
      | _ => (invalidHandle, none)

/-- run a history from a state -/
def runOps (std : Stdlib) (s : OpState) : List Op → OpState
  | [] => s
  | op :: rest => runOps std (opStep std s op).2 rest

end Ucfg
