import Ucfg.Base.IntLit
import Ucfg.Model.Opts
/-
  path.go: parsePath / parseField / parsePathIdx and cfgPath.{GetValue,Has,SetValue,Remove},
  as pure functions on `Val`.  `tc` is the conversion `value.toConfig(opts)`; the plain
  version below does not evaluate references, Model/Eval.lean passes the evaluating one.
-/
namespace Ucfg
open Outcome

/-! ### path syntax -/

/-- strings.Split(s, sep) for non-empty sep, on character lists -/
def splitAux (sep : List Char) : List Char → Nat → List Char → List (List Char)
  | [], _, acc => [acc.reverse]
  | _ :: r, skip+1, acc => splitAux sep r skip acc
  | c :: r, 0, acc =>
    if sep.isPrefixOf (c :: r) then acc.reverse :: splitAux sep r (sep.length - 1) []
    else splitAux sep r 0 (c :: acc)

def splitOn (s sep : String) : List String :=
  (splitAux sep.toList s.toList 0 []).map String.ofList

/-- path.go parseField -/
def parseField (s : String) (maxIdx : Int) (enableNumKeys : Bool) : Field :=
  if enableNumKeys then .named s
  else match IntLit.parseIntS s with
    | some i => if Extracted.guard_parseField i maxIdx then .idx i else .named s
    | none => .named s

/-- regexp `^\[.*\]$` ('.' does not match a newline) -/
def escapedPath (s : String) : Bool :=
  let l := s.toList
  l.length ≥ 2 && l.head? == some '[' && l.getLast? == some ']' && !l.contains '\n'

/-- path.go parsePath -/
def parsePath (s sep : String) (maxIdx : Int) (enk esc : Bool) : List Field :=
  if sep == "" || (esc && escapedPath s) then [parseField s maxIdx enk]
  else
    let elems := splitOn s sep
    let enk := if elems.length > 1 then false else enk
    elems.map (fun e => parseField e maxIdx enk)

def parsePathOpts (s : String) (o : Opts) : List Field :=
  parsePath s o.pathSep o.maxIdx o.enableNumKeys o.escapePath

/-- path.go parsePathIdx -/
def parsePathIdx (s : String) (idx : Int) (o : Opts) : List Field :=
  if s == "" then [.idx idx]
  else
    let p := parsePathOpts s o
    if idx ≥ 0 then p ++ [.idx idx] else p

/-! ### node accessors -/

def Val.dict : Val → Dict
  | .sub d _ _ _ => d
  | _ => []

def Val.arr : Val → List Val
  | .sub _ a _ _ => a
  | _ => []

/-- value.toConfig without reference evaluation -/
def tcPlain : Val → Outcome Val
  | .sub d a hd ha => .ok (.sub d a hd ha)
  | .prim .nil => .ok Val.empty
  | .prim _ => raiseRaw .typeMismatch
  | .dyn _ _ => raiseRaw .typeMismatch

abbrev TC := Val → Outcome Val

/-- namedField.GetValue / idxField.GetValue; `none` is Go's nil value (absent) -/
def fieldGet (tc : TC) (f : Field) (elem : Val) : Outcome (Option Val) :=
  match f with
  | .named n =>
    match tc elem with
    | .ok c => .ok (dget c.dict n)
    | .err _ => raise .expectedObject
    | .panic s => .panic s
    | .fuel => .fuel
  | .idx i =>
    match tc elem with
    | .err _ => if i == 0 then .ok (some elem) else raise .expectedObject
    | .ok c =>
      if Extracted.guard_idxGet_missing i c.arr.length then raise .missing
      else if i < 0 then .panic "idxField.GetValue: index out of range"
      else match c.arr[i.toNat]? with
        | some v => .ok (some v)
        | none => .panic "idxField.GetValue: index out of range"
    | .panic s => .panic s
    | .fuel => .fuel

/-- cfgPath.GetValue -/
def pathGet (tc : TC) : List Field → Val → Outcome (Option Val)
  | [], _ => .panic "cfgPath.GetValue: empty path"
  | [f], cur =>
    match fieldGet tc f cur with
    | .err _ => raise .missing
    | r => r
  | f :: rest, cur =>
    match fieldGet tc f cur with
    | .ok none => raise .missing
    | .ok (some n) => pathGet tc rest n
    | .err e => .err e
    | .panic s => .panic s
    | .fuel => .fuel

/-- cfgPath.Has -/
def pathHas (tc : TC) : List Field → Val → Outcome Bool
  | [], _ => .ok true
  | f :: rest, cur =>
    match fieldGet tc f cur with
    | .err e => if e.reason = .missing then .ok false else .err e
    | .ok none => .ok false
    | .ok (some n) => pathHas tc rest n
    | .panic s => .panic s
    | .fuel => .fuel

/-- (*Config).getField -/
def getField (tc : TC) (o : Opts) (c : Val) (name : String) (idx : Int) : Outcome Val :=
  match pathGet tc (parsePathIdx name idx o) c with
  | .ok none => raise .missing
  | .ok (some v) => .ok v
  | .err e => .err e
  | .panic s => .panic s
  | .fuel => .fuel

/-! ### writes -/

/-- an index from which `make([]value, idx+1)` is treated as a fatal allocation (2^32 slots = 64 GiB) -/
def hugeAlloc : Int := 4294967296

/-- namedField.SetValue / idxField.SetValue on the node `elem` -/
def fieldSet (o : Opts) (f : Field) (elem v : Val) : Outcome Val :=
  match elem with
  | .sub d a hd ha =>
    match f with
    | .named n => .ok (.sub (dset d n v) a true ha)
    | .idx i =>
      if Extracted.guard_idxSet_reject i o.maxIdx then raise .indexOutOfRange
      else if i < 0 then .panic "fields.setAt: index out of range"
      else if i ≥ hugeAlloc then .panic "fields.setAt: makeslice of an unbounded index"
      else .ok (.sub d (asetNat a i.toNat v) hd true)
  | _ => raise .expectedObject

/-- intermediate nodes built bottom-up by cfgPath.SetValue (step 2) -/
def buildChain (o : Opts) : List Field → Val → Outcome Val
  | [], v => .ok v
  | f :: rest, v => do
    let inner ← buildChain o rest v
    fieldSet o f Val.empty inner

/-- put an updated child back where `fieldGet` found it -/
def putChild (node : Val) (f : Field) (v : Val) : Outcome Val :=
  match node, f with
  | .sub d a hd ha, .named n => .ok (.sub (dset d n v) a hd ha)
  | .sub d a hd ha, .idx i => .ok (.sub d (a.set i.toNat v) hd ha)
  | _, _ => raise .expectedObject

/-- cfgPath.SetValue: the updated node -/
def pathSet (tc : TC) (o : Opts) : List Field → Val → Val → Outcome Val
  | [], _, _ => .panic "cfgPath.SetValue: empty path"
  | [f], node, v => fieldSet o f node v
  | f :: rest, node, v =>
    let build : Outcome Val := do
      let inner ← buildChain o rest v
      fieldSet o f node inner
    match fieldGet tc f node with
    | .err e => if e.reason = .missing then build else .err e
    | .ok none => build
    | .ok (some c) =>
      if c.isNilPrim then build
      else do
        let c' ← pathSet tc o rest c v
        putChild node f c'
    | .panic s => .panic s
    | .fuel => .fuel

/-- fields.delAt -/
def adel (a : List Val) (i : Int) : List Val × Bool :=
  if Extracted.guard_delAt_reject i a.length then (a, false) else (a.eraseIdx i.toNat, true)

/-- delAt would index out of range (a Go panic) -/
def adelPanics (a : List Val) (i : Int) : Bool :=
  !Extracted.guard_delAt_reject i a.length && (i < 0 || i ≥ a.length)

/-- namedField.Remove / idxField.Remove on a config node -/
def fieldRemove (f : Field) (c : Val) : Val × Bool :=
  match c with
  | .sub d a hd ha =>
    match f with
    | .named n => (.sub (ddel d n) a hd ha, dhas d n)
    | .idx i => let (a', r) := adel a i; (.sub d a' hd ha, r)
  | _ => (c, false)

/-- cfgPath.Remove: updated node and the "removed" flag -/
def pathRemove (tc : TC) : List Field → Val → Outcome (Val × Bool)
  | [], _ => .panic "cfgPath.Remove: empty path"
  | [f], cur =>
    match tc cur with
    | .err _ => raise .expectedObject
    | .ok c =>
      -- a nil value converts to a fresh, unattached config: nothing to remove from
      match cur with
      | .sub .. => .ok (fieldRemove f c)
      | _ => .ok (cur, (fieldRemove f c).2)
    | .panic s => .panic s
    | .fuel => .fuel
  | f :: rest, cur =>
    match fieldGet tc f cur with
    | .err e => if e.reason = .missing then .ok (cur, false) else .err e
    | .ok none => .ok (cur, false)
    | .ok (some n) => do
      let (n', r) ← pathRemove tc rest n
      match cur with
      | .sub .. => do
        let cur' ← putChild cur f n'
        .ok (cur', r)
      | _ => .ok (cur, r)
    | .panic s => .panic s
    | .fuel => .fuel

end Ucfg
