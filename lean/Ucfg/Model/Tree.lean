import Ucfg.Base.Outcome
import Ucfg.Base.F64
/-
  The configuration tree at the data level (no node identities, no stored
  contexts: those live in Model/Forest.lean).  Mirrors ucfg.go `Config`/`fields`
  and types.go `cfg*` values.

  * `sub d a hasD hasA` is a `*Config` node: dictionary part `d`, array part `a`
    (a node may carry both); `hasD`/`hasA` model `fields.d != nil` / `fields.a != nil`,
    which IsDict/IsArray and the "preserve empty arrays" branch of reify observe.
  * dictionaries are association lists kept sorted by key without duplicates
    (`dset` is sorted insertion), so that equality of trees is `=`.
  * `dyn id e` is an unevaluated `${…}` expression (cfgDynamic); `id` is the cache key.
-/
namespace Ucfg

inductive Field where
  | named (s : String)
  | idx (i : Int)
  deriving DecidableEq, Repr, Inhabited

def Field.str : Field → String
  | .named s => s
  | .idx i => toString i

/-- cfgPath.String() -/
def pathString (fs : List Field) (sep : String) : String :=
  match fs with
  | [] => ""
  | [f] => f.str
  | _ => (if sep == "" then "." else sep).intercalate (fs.map Field.str)

/-- variables.go varEvaler -/
inductive Expr where
  | const (s : String)
  | ref (fs : List Field) (sep : String)
  | splice (ps : List Expr)
  | single (e : Expr) (sep : String)
  | dflt (l r : Expr) (sep : String)
  | alt (l r : Expr) (sep : String)
  | errx (l r : Expr) (sep : String)
  deriving Repr, Inhabited

inductive Prim where
  | nil
  | bool (b : Bool)
  | int (i : Int)
  | uint (n : Nat)
  | float (bits : Nat)
  | str (s : String)
  deriving DecidableEq, Repr, Inhabited

inductive Val where
  | prim (p : Prim)
  | dyn (id : Nat) (e : Expr)
  | sub (d : List (String × Val)) (a : List Val) (hasD hasA : Bool)
  deriving Repr, Inhabited

abbrev Dict := List (String × Val)

namespace Val

/-- ucfg.New(): `&Config{fields: &fields{nil, nil}}` -/
def empty : Val := .sub [] [] false false

def nilV : Val := .prim .nil

/-- isNil(v) for a present value (Go-nil, i.e. absent, is `none` at the call sites) -/
def isNilPrim : Val → Bool
  | .prim .nil => true
  | _ => false

def isNilOpt : Option Val → Bool
  | none => true
  | some v => v.isNilPrim

def isSub : Val → Bool
  | .sub .. => true
  | _ => false

def isSubOpt : Option Val → Bool
  | some v => v.isSub
  | none => false

end Val

/-! ### dictionaries -/

def dget : Dict → String → Option Val
  | [], _ => none
  | (k, v) :: r, n => if k = n then some v else dget r n

/-- sorted insertion / in-place replacement -/
def dset : Dict → String → Val → Dict
  | [], n, x => [(n, x)]
  | (k, v) :: r, n, x =>
    if n = k then (k, x) :: r
    else if n < k then (n, x) :: (k, v) :: r
    else (k, v) :: dset r n x

def ddel : Dict → String → Dict
  | [], _ => []
  | (k, v) :: r, n => if k = n then r else (k, v) :: ddel r n

def dhas (d : Dict) (n : String) : Bool := (dget d n).isSome

def dkeys (d : Dict) : List String := d.map Prod.fst

/-! ### arrays (fields.setAt / delAt / append at the data level) -/

/-- fields.setAt: pad with nil values up to idx, then store -/
def asetNat : List Val → Nat → Val → List Val
  | [], 0, v => [v]
  | [], n+1, v => Val.nilV :: asetNat [] n v
  | _ :: r, 0, v => v :: r
  | x :: r, n+1, v => x :: asetNat r n v

end Ucfg
