import Ucfg.Model.Normalize
import Ucfg.Model.Parse
import Ucfg.Model.Flag
import Ucfg.Model.Reify
/-
  variables.go / types.go (cfgDynamic): evaluation of `${…}` expressions at read time.

  * one API call = one `options` value: the Env configs, the resolvers, a value cache keyed by
    the identity of the dynamic value (`cacheID`) and the set of "active" references used for
    cycle detection.
  * the active set is a stack of scopes in the Go code (fieldSet with a parent pointer).  With
    the scoping the code has after the D14 fix — a fresh child scope around every
    `cfgDynamic.withValue`, `reference.eval` and the lookup in `expansionAlt.eval` — a scope is
    exactly "the references being evaluated on the way here", so it is an argument (`active`),
    and what a scope gains while a dynamic value is looked up is returned to the caller.
  * the cache is threaded state (`Cache`): it survives failed attempts inside `${x:default}`.
  * every recursive call spends one unit of `fuel`; `Outcome.fuel` is never a default.

  `home` is the root of the tree a value lives in (cfgRoot of its context): references are
  looked up from there, then in the Env configs (last added first), then in the resolvers.
-/
namespace Ucfg
open Outcome

abbrev Cache := List (Nat × Val)

/-- a value together with the root of the tree it lives in -/
structure Found where
  v : Val
  home : Val
  path : List String := []      -- where the value sits in its tree (for Path()/FlattenedKeys)
  deriving Inhabited

structure ECtx where
  opts : Opts
  std : Stdlib

abbrev EM (α : Type) := Cache → Outcome α × Cache

@[inline] def EM.pure {α : Type} (a : α) : EM α := fun c => (.ok a, c)
@[inline] def EM.fail {α : Type} (e : Err) : EM α := fun c => (.err e, c)
@[inline] def EM.bind {α β : Type} (x : EM α) (f : α → EM β) : EM β := fun c =>
  match x c with
  | (.ok a, c') => f a c'
  | (.err e, c') => (.err e, c')
  | (.panic s, c') => (.panic s, c')
  | (.fuel, c') => (.fuel, c')

instance : Monad EM where
  pure := EM.pure
  bind := EM.bind

def EM.lift {α : Type} (o : Outcome α) : EM α := fun c => (o, c)
def EM.outOfFuel {α : Type} : EM α := fun c => (.fuel, c)

/-- run and catch: errors become values (the cache keeps what the attempt stored) -/
def EM.attempt {α : Type} (x : EM α) : EM (Except Err α) := fun c =>
  match x c with
  | (.ok a, c') => (.ok (.ok a), c')
  | (.err e, c') => (.ok (.error e), c')
  | (.panic s, c') => (.panic s, c')
  | (.fuel, c') => (.fuel, c')

def cacheGet (c : Cache) (id : Nat) : Option Val := (c.find? (·.1 == id)).map (·.2)

/-- value.canCache: primitives (including nil) -/
def canCache : Val → Bool
  | .prim _ => true
  | _ => false

def errCyclic : Err := { reason := .cyclic }
def errMissingRaw : Err := { reason := .missing, typed := false }
def errMissing : Err := { reason := .missing }

/-- criticalResolveError -/
def criticalErr (e : Err) : Bool := !(e.typed && (e.reason == .cyclic || e.reason == .missing))

/-- the result of reference.resolveRef that is not an immediate return -/
inductive RefR where
  | found (f : Found)
  | notFound (prev : Option Err)      -- (nil, err) with a non-critical err (or nil)

/-- types.go parseValue: re-typing of a resolver / splice result -/
def parseValueE (C : ECtx) (str : String) (pcfg : ParseCfg) : Outcome Val :=
  if C.opts.noParse then .err { reason := .noParse }
  else
    let pcfg := if C.opts.ignoreCommas then { pcfg with ignoreCommas := true } else pcfg
    match Parse.valueWithConfig C.std str pcfg with
    | .err e => .err e
    | .panic s => .panic s
    | .fuel => .fuel
    | .ok d =>
      match d with
      | .nil => if (Parse.trimSpace str.toList).isEmpty then .ok (.prim (.str str)) else .ok Val.nilV
      | .bool b => .ok (.prim (.bool b))
      | .int i => .ok (.prim (.int i))
      | .uint n => .ok (.prim (.uint n))
      | .float f => .ok (.prim (.float f))
      | .str s => .ok (.prim (.str s))
      | d => normalize C.opts (dataToGoData d)

/-- reference.resolveEnv: resolvers, last added first -/
def resolveEnv (C : ECtx) (key : String) : Except Err (String × ParseCfg) :=
  let rec go : List Resolver → Except Err (String × ParseCfg)
    | [] => .error errMissingRaw
    | r :: rest =>
      match r.table.find? (·.1 == key) with
      | some (_, v, cfg) => .ok (v, cfg)
      | none => match rest with
        | [] => .error errMissingRaw
        | _ => go rest
  go C.opts.resolvers.reverse

mutual
/-- force a value: follow dynamic values until something that is not one (cfgDynamic.withValue
nests one scope per level; what a level adds stays visible to the levels below) -/
def force (C : ECtx) : Nat → Val → List String → Val → List String → EM (Found × List String)
  | 0, _, _, _, _ => EM.outOfFuel
  | n+1, home, here, v, active =>
    match v with
    | .dyn id e => do
      let (f, active') ← dynValue C n home here active id e
      force C n f.home f.path f.v active'
    | v => pure (⟨v, home, here⟩, active)

/-- cfgDynamic.getValue through the per-call cache; returns the names the lookup activated -/
def dynValue (C : ECtx) : Nat → Val → List String → List String → Nat → Expr → EM (Found × List String)
  | 0, _, _, _, _, _ => EM.outOfFuel
  | n+1, home, here, active, id, e => fun cache =>
    match cacheGet cache id with
    | some v => (.ok (⟨v, home, here⟩, active), cache)
    | none =>
      match dynGet C n home here active e cache with
      | (.ok (f, active'), cache') =>
        (.ok (f, active'), if canCache f.v then (id, f.v) :: cache' else cache')
      | r => r

/-- refDynValue.getValue / spliceDynValue.getValue -/
def dynGet (C : ECtx) : Nat → Val → List String → List String → Expr → EM (Found × List String)
  | 0, _, _, _, _ => EM.outOfFuel
  | n+1, home, here, active, e =>
    match e with
    | .ref fs sep => do
      match ← resolveRef C n home active fs sep with
      | .found f => pure (f, pathString fs sep :: active)
      | .notFound prev =>
        match resolveEnv C (pathString fs sep) with
        | .error e =>
          EM.fail (match prev with
            | some p => if p.typed && p.reason == .cyclic then p else e
            | none => e)
        | .ok (str, pcfg) =>
          match parseValueE C str pcfg with
          | .ok v => pure (⟨v, home, here⟩, pathString fs sep :: active)
          | .err er => EM.fail er
          | .panic s => EM.lift (.panic s)
          | .fuel => EM.outOfFuel
    | e => do
      let str ← evalExpr C n home active e
      match parseValueE C str {} with
      | .ok v => pure (⟨v, home, here⟩, active)
      | .err er => EM.fail er
      | .panic s => EM.lift (.panic s)
      | .fuel => EM.outOfFuel

/-- reference.resolveRef: the tree the setting lives in, then the Env configs (last added first) -/
def resolveRef (C : ECtx) : Nat → Val → List String → List Field → String → EM RefR
  | 0, _, _, _, _ => EM.outOfFuel
  | n+1, home, active, fs, sep =>
    let name := pathString fs sep
    if active.contains name then pure (.notFound (some { errCyclic with msg := some name }))
    else lookupTrees C n (name :: active) fs (home :: C.opts.env.reverse)

/-- the loop of resolveRef over the candidate trees -/
def lookupTrees (C : ECtx) : Nat → List String → List Field → List Val → EM RefR
  | 0, _, _, _ => EM.outOfFuel
  | _+1, _, _, [] => pure (.notFound none)
  | n+1, active, fs, t :: rest => do
    match ← EM.attempt (pathGetE C n t [] active fs t) with
    | .ok (some f) => pure (.found f)
    | .ok none =>
      (match rest with
       | [] => pure (.notFound none)
       | _ => lookupTrees C n active fs rest)
    | .error e =>
      (match rest with
       | [] => if criticalErr e then EM.fail e else pure (.notFound (some e))
       | _ => lookupTrees C n active fs rest)

/-- cfgPath.GetValue where intermediate nodes may be references (value.toConfig evaluates them) -/
def pathGetE (C : ECtx) : Nat → Val → List String → List String → List Field → Val → EM (Option Found)
  | 0, _, _, _, _, _ => EM.outOfFuel
  | n+1, home, here, active, fs, cur =>
    match fs with
    | [] => EM.lift (.panic "cfgPath.GetValue: empty path")
    | [f] => do
      match ← EM.attempt (fieldGetE C n home here active f cur) with
      | .ok r => pure r
      | .error _ => EM.fail errMissing
    | f :: rest => do
      match ← fieldGetE C n home here active f cur with
      | none => EM.fail errMissing
      | some nx => pathGetE C n nx.home nx.path active rest nx.v

/-- namedField.GetValue / idxField.GetValue with an evaluating toConfig -/
def fieldGetE (C : ECtx) : Nat → Val → List String → List String → Field → Val → EM (Option Found)
  | 0, _, _, _, _, _ => EM.outOfFuel
  | n+1, home, here, active, f, elem => do
    let cfgR ← EM.attempt (toConfigE C n home here active elem)
    match f with
    | .named k =>
      (match cfgR with
       | .ok c => pure ((dget c.v.dict k).map (fun v => ⟨v, c.home, c.path ++ [k]⟩))
       | .error _ => EM.fail { reason := .expectedObject })
    | .idx i =>
      (match cfgR with
       | .error _ => if i == 0 then pure (some ⟨elem, home, here⟩) else EM.fail { reason := .expectedObject }
       | .ok c =>
         if Extracted.guard_idxGet_missing i c.v.arr.length then EM.fail errMissing
         else if i < 0 then EM.lift (.panic "idxField.GetValue: index out of range")
         else match c.v.arr[i.toNat]? with
           | some v => pure (some ⟨v, c.home, c.path ++ [toString i]⟩)
           | none => EM.lift (.panic "idxField.GetValue: index out of range"))

/-- value.toConfig -/
def toConfigE (C : ECtx) : Nat → Val → List String → List String → Val → EM Found
  | 0, _, _, _, _ => EM.outOfFuel
  | n+1, home, here, active, v => do
    let (f, _) ← force C n home here v active
    match f.v with
    | .sub d a hd ha => pure ⟨.sub d a hd ha, f.home, f.path⟩
    | .prim .nil => pure ⟨Val.empty, f.home, f.path⟩
    | _ => EM.fail { reason := .typeMismatch, typed := false }

/-- value.toString -/
def toStringE (C : ECtx) : Nat → Val → List String → Val → EM String
  | 0, _, _, _ => EM.outOfFuel
  | n+1, home, active, v => do
    let (f, _) ← force C n home [] v active
    match f.v with
    | .prim p => EM.lift (p.toStr C.std)
    | _ => EM.fail { reason := .typeMismatch, typed := false }

/-- reference.resolve -/
def refResolve (C : ECtx) : Nat → Val → List String → List Field → String → EM (Option Found)
  | 0, _, _, _, _ => EM.outOfFuel
  | n+1, home, active, fs, sep => do
    match ← resolveRef C n home active fs sep with
    | .found f => pure (some f)
    | .notFound prev =>
      match resolveEnv C (pathString fs sep) with
      | .error e =>
        EM.fail (match prev with
          | some p => if p.typed && p.reason == .cyclic then p else e
          | none => e)
      | .ok (s, _) => if s == "" then pure none else pure (some ⟨.prim (.str s), home, []⟩)

/-- reference.eval (in its own scope) -/
def refEval (C : ECtx) : Nat → Val → List String → List Field → String → EM String
  | 0, _, _, _, _ => EM.outOfFuel
  | n+1, home, active, fs, sep => do
    match ← refResolve C n home active fs sep with
    | none => EM.fail { reason := .other, typed := false, msg := some "can not resolve reference" }
    | some f => toStringE C n f.home (pathString fs sep :: active) f.v

/-- varEvaler.eval -/
def evalExpr (C : ECtx) : Nat → Val → List String → Expr → EM String
  | 0, _, _, _ => EM.outOfFuel
  | n+1, home, active, e =>
    match e with
    | .const s => pure s
    | .ref fs sep => refEval C n home active fs sep
    | .splice ps => evalPieces C n home active ps
    | .single inner _ => do
      let path ← evalExpr C n home active inner
      refEval C n home active (parsePathOpts path C.opts) C.opts.pathSep
    | .dflt l r sep => do
      match ← EM.attempt (evalExpr C n home active l) with
      | .error _ => evalExpr C n home active r
      | .ok path =>
        if path == "" then evalExpr C n home active r
        else
          match ← EM.attempt (refEval C n home active
              (parsePath path sep C.opts.maxIdx C.opts.enableNumKeys C.opts.escapePath) sep) with
          | .error _ => evalExpr C n home active r
          | .ok v => if v == "" then evalExpr C n home active r else pure v
    | .alt l r sep => do
      match ← EM.attempt (evalExpr C n home active l) with
      | .error _ => pure ""
      | .ok path =>
        if path == "" then pure ""
        else
          match ← EM.attempt (refResolve C n home active
              (parsePath path sep C.opts.maxIdx C.opts.enableNumKeys C.opts.escapePath) sep) with
          | .error _ => pure ""
          | .ok none => pure ""
          | .ok (some _) => evalExpr C n home active r
    | .errx l r sep => do
      let firstTry ← EM.attempt (evalExpr C n home active l)
      let got : Option String ← (match firstTry with
        | .error _ => pure none
        | .ok path =>
          if path == "" then pure none
          else do
            match ← EM.attempt (refEval C n home active
                (parsePath path sep C.opts.maxIdx C.opts.enableNumKeys C.opts.escapePath) sep) with
            | .ok s => if s == "" then pure none else pure (some s)
            | .error _ => pure none)
      match got with
      | some s => pure s
      | none => do
        let msg ← evalExpr C n home active r
        EM.fail { reason := .other, typed := false, msg := some msg }

/-- splice.eval -/
def evalPieces (C : ECtx) : Nat → Val → List String → List Expr → EM String
  | 0, _, _, _ => EM.outOfFuel
  | _+1, _, _, [] => pure ""
  | n+1, home, active, p :: rest => do
    let s ← evalExpr C n home active p
    let r ← evalPieces C n home active rest
    pure (s ++ r)
end

/-! ### reading through the API -/

mutual
/-- value.reify with references -/
def reifyE (C : ECtx) : Nat → Val → List String → Val → EM Data
  | 0, _, _, _ => EM.outOfFuel
  | n+1, home, active, v => do
    let (f, active') ← force C n home [] v active
    match f.v with
    | .prim p => pure p.toData
    | .dyn _ _ => EM.lift (.panic "force returned a dynamic value")
    | .sub d a _ ha =>
      match d, a with
      | [], [] => if ha then pure (.arr []) else pure .nil
      | _ :: _, [] => do let m ← reifyDE C n f.home active' d; pure (.map m)
      | [], _ :: _ => do let l ← reifyAE C n f.home active' a; pure (.arr l)
      | _ :: _, _ :: _ => do
        let m ← reifyDE C n f.home active' d
        let l ← reifyIdxE C n f.home active' 0 a
        pure (.map (m ++ l))
def reifyDE (C : ECtx) : Nat → Val → List String → List (String × Val) → EM (List (String × Data))
  | 0, _, _, _ => EM.outOfFuel
  | _+1, _, _, [] => pure []
  | n+1, home, active, (k, v) :: r => do
    let x ← reifyE C n home active v
    let rest ← reifyDE C n home active r
    pure ((k, x) :: rest)
def reifyAE (C : ECtx) : Nat → Val → List String → List Val → EM (List Data)
  | 0, _, _, _ => EM.outOfFuel
  | _+1, _, _, [] => pure []
  | n+1, home, active, v :: r => do
    let x ← reifyE C n home active v
    let rest ← reifyAE C n home active r
    pure (x :: rest)
def reifyIdxE (C : ECtx) : Nat → Val → List String → Nat → List Val → EM (List (String × Data))
  | 0, _, _, _, _ => EM.outOfFuel
  | _+1, _, _, _, [] => pure []
  | n+1, home, active, i, v :: r => do
    let x ← reifyE C n home active v
    let rest ← reifyIdxE C n home active (i + 1) r
    pure ((toString i, x) :: rest)
end

/-- give every dynamic value of a tree its own cache id (cacheID is unique per value) -/
def labelDyns : Val → Nat → Val × Nat
  | .prim p, n => (.prim p, n)
  | .dyn _ e, n => (.dyn (n + 1) e, n + 1)
  | .sub d a hd ha, n =>
    let (d', n1) := labelD d n
    let (a', n2) := labelA a n1
    (.sub d' a' hd ha, n2)
where
  labelD : List (String × Val) → Nat → List (String × Val) × Nat
    | [], n => ([], n)
    | (k, v) :: r, n =>
      let (v', n1) := labelDyns v n
      let (r', n2) := labelD r n1
      ((k, v') :: r', n2)
  labelA : List Val → Nat → List Val × Nat
    | [], n => ([], n)
    | v :: r, n =>
      let (v', n1) := labelDyns v n
      let (r', n2) := labelA r n1
      (v' :: r', n2)

def defaultFuel : Nat := 4000

def runEM {α : Type} (x : EM α) : Outcome α := (x []).1

/-- Unpack(&map[string]interface{}) and Unpack(&[]interface{}) of a whole config: two API calls (two
caches); each top-level setting is reified in its own scope -/
def viewE (C : ECtx) (root : Val) : Outcome View :=
  match root with
  | .sub d a hd ha => do
    let m ← runEM (reifyDE C defaultFuel root [] d)
    let l ← runEM (reifyAE C defaultFuel root [] a)
    .ok { isDict := hd, isArray := ha, dict := m, arr := l }
  | _ => raise .typeMismatch

/-- (*Config).getField with references on the way -/
def getFieldE (C : ECtx) (root : Val) (name : String) (idx : Int) : EM Found := do
  match ← pathGetE C defaultFuel root [] [] (parsePathIdx name idx C.opts) root with
  | none => EM.fail errMissing
  | some f => pure f

/-- the value a typed getter converts: the setting with references followed -/
def getForcedE (C : ECtx) (root : Val) (name : String) (idx : Int) : Outcome Found :=
  runEM (do
    let f ← getFieldE C root name idx
    let (g, _) ← force C defaultFuel f.home f.path f.v []
    pure g)

/-- (*Config).Has -/
def hasE (C : ECtx) (root : Val) (name : String) (idx : Int) : Outcome Bool :=
  let rec go (n : Nat) (fs : List Field) (cur : Found) : EM Bool :=
    match n with
    | 0 => EM.outOfFuel
    | n+1 =>
      match fs with
      | [] => pure true
      | f :: rest => do
        match ← EM.attempt (fieldGetE C defaultFuel cur.home cur.path [] f cur.v) with
        | .error e => if e.reason == .missing then pure false else EM.fail e
        | .ok none => pure false
        | .ok (some nx) => go n rest nx
  runEM (go 64 (parsePathIdx name idx C.opts) ⟨root, root, []⟩)

/-- (*Config).FlattenedKeys: fresh options (cache, active set) at every level; a config that is
already being visited (reached again through a reference) ends the traversal -/
def flattenedKeysE (C : ECtx) : Nat → Val → List (List String) → List String → Val → Outcome (List String)
  | 0, _, _, _, _ => .fuel
  | n+1, home, visiting, here, c =>
    if visiting.contains here then .ok []
    else
      let sep := if C.opts.pathSep == "" then "." else C.opts.pathSep
      let one (k : String) (v : Val) : Outcome (List String) :=
        match runEM (toConfigE C defaultFuel home (here ++ [k]) [] v) with
        | .ok f => flattenedKeysE C n f.home (here :: visiting) f.path f.v
        | .err _ => .ok [sep.intercalate (here ++ [k])]
        | .panic s => .panic s
        | .fuel => .fuel
      match c with
      | .sub d a hd ha =>
        if hd then d.foldlM (fun acc (k, v) => do let ks ← one k v; .ok (acc ++ ks)) []
        else if ha then (a.zipIdx).foldlM (fun acc (v, i) => do let ks ← one (toString i) v; .ok (acc ++ ks)) []
        else .ok []
      | _ => .ok []

end Ucfg
