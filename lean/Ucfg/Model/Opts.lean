import Ucfg.Model.Tree
import Ucfg.Extracted
namespace Ucfg

/-- util.go configHandling, in iota order -/
inductive Handling where
  | dflt | merge | replace | append | prepend | arrReplace
  deriving DecidableEq, Repr, Inhabited

def Handling.code : Handling → Nat
  | .dflt => 0 | .merge => 1 | .replace => 2 | .append => 3 | .prepend => 4 | .arrReplace => 5

def Handling.fromCode : Nat → Handling
  | 1 => .merge | 2 => .replace | 3 => .append | 4 => .prepend | 5 => .arrReplace | _ => .dflt

/-- parse.Config -/
structure ParseCfg where
  array : Bool := true
  object : Bool := true
  dq : Bool := true
  sq : Bool := true
  ignoreCommas : Bool := false
  deriving DecidableEq, Repr, Inhabited

/-- a resolver (opts.Resolve): a finite table name ↦ (text, parse config); any
other name fails with ErrMissing.  Real resolvers are arbitrary functions; the
harness only installs table resolvers. -/
structure Resolver where
  table : List (String × String × ParseCfg)
  deriving Repr, Inhabited

structure Opts where
  pathSep : String := ""
  maxIdx : Int := Extracted.defaultMaxIdx
  enableNumKeys : Bool := false
  escapePath : Bool := false
  varexp : Bool := false
  noParse : Bool := false
  ignoreCommas : Bool := false
  handling : Handling := .dflt
  fieldTree : Option Val := none
  env : List Val := []
  resolvers : List Resolver := []
  deriving Repr, Inhabited

end Ucfg
