import Ucfg.Model.PrimUnpack
import Ucfg.Model.Normalize
import Ucfg.Model.Reify
import Ucfg.Model.Flag
/-
  reify.go / validator.go / util.go(accessField): typed unpacking through reflection, over a
  universe of Go types we define (`Ty`) and values (`GoVal`), for reference-free configs.

  Not in the universe (hence outside the theorems and the generators): user types with
  Unpack / Validate / InitDefaults methods, embedded structs with promoted methods, generics.
-/
namespace Ucfg
open Outcome

inductive Ty where
  | prim (k : Kind)
  | regexp                                         -- regexp.Regexp (a struct) / *regexp.Regexp via ptr
  | iface                                          -- interface{}
  | ptr (t : Ty)
  | slice (t : Ty)
  | array (n : Nat) (t : Ty)
  | map (t : Ty)                                   -- map[string]T
  | strct (fs : List (String × String × String × Ty))   -- (Go name, config tag, validate tag, type)
  | config                                         -- ucfg.Config (use ptr config for *Config)
  | unsupported                                    -- chan, func, complex …
  | badmap                                         -- map[K]T with a key type other than string
  deriving Repr, Inhabited

inductive GoVal where
  | scalar (s : Scalar)
  | regex (pat : String)
  | iface (d : Option Data)                        -- interface{}: nil or the generic datum it holds
  | ptr (v : Option GoVal)
  | slice (l : Option (List GoVal))                -- none = nil slice
  | array (l : List GoVal)
  | map (m : Option (List (String × GoVal)))       -- none = nil map; entries sorted by key
  | strct (fs : List GoVal)                        -- by field position
  | cfg (v : Option Val)
  | unsup
  deriving Repr, Inhabited

/-- a validator tag entry: name and parameter -/
structure VTag where
  name : String
  param : String
  deriving Repr, DecidableEq, Inhabited

def trimTag (s : String) : String :=
  let isWs (c : Char) : Bool := c == ' ' || c == '\t' || c == '\r' || c == '\n'
  String.ofList (((s.toList.dropWhile isWs).reverse.dropWhile isWs).reverse)

def knownValidators : List String := ["nonzero", "positive", "min", "max", "required"]

/-- validator.go parseValidatorTags; `none` = unknown validator (a critical error) -/
def parseValidatorTags (tag : String) : Option (List VTag) :=
  if tag == "" then some []
  else (splitOn tag ",").mapM (fun cfg =>
    let np : String × Option String := splitEq cfg
    let name := trimTag np.1
    if knownValidators.contains name then some ⟨name, (np.2.map trimTag).getD ""⟩ else none)

mutual
def zeroOf : Ty → GoVal
  | .prim .bool => .scalar (.bool false)
  | .prim (.int _) => .scalar (.int 0)
  | .prim (.uint _) => .scalar (.uint 0)
  | .prim (.float _) => .scalar (.float 0)
  | .prim .string => .scalar (.str "")
  | .prim .duration => .scalar (.dur 0)
  | .regexp => .regex ""
  | .iface => .iface none
  | .ptr _ => .ptr none
  | .slice _ => .slice none
  | .array n t => .array (List.replicate n (zeroOf t))
  | .map _ => .map none
  | .strct fs => .strct (zeroFields fs)
  | .config => .cfg (some Val.empty)
  | .unsupported => .unsup
  | .badmap => .unsup
def zeroFields : List (String × String × String × Ty) → List GoVal
  | [] => []
  | (_, _, _, t) :: r => zeroOf t :: zeroFields r
end

/-! ### validators (validator.go), on the value `v.Interface()` would carry -/

inductive VErr where
  | required | zero | negative | stringEmpty | arrayEmpty | mapEmpty | regexEmpty
  | bound            -- "requires value >= / <= param"
  | param            -- the parameter does not parse
  deriving DecidableEq, Repr, Inhabited

def VErr.reason : VErr → Reason
  | .required => .required | .zero => .zeroValue | .negative => .negative | .stringEmpty => .stringEmpty
  | .arrayEmpty => .arrayEmpty | .mapEmpty => .mapEmpty | .regexEmpty => .regexEmpty
  | .bound => .other | .param => .other

/-- is the interface value nil (a nil interface; a typed nil pointer is not) -/
def GoVal.isNilIface : GoVal → Bool
  | .iface none => true
  | _ => false

/-- chaseValue for validators: through non-nil pointers and interfaces holding data -/
def GoVal.chase : GoVal → GoVal
  | .ptr (some v) => v.chase
  | v => v

/-- validateNonEmptyWithAllowNil -/
def validateNonEmpty (v : GoVal) (allowNil : Bool) : Option VErr :=
  match v with
  | .scalar (.str s) => if s == "" then some .stringEmpty else none
  | .regex p => if p == "" then some .regexEmpty else none
  | .slice none => if allowNil then none else some .required
  | .slice (some l) => if l.isEmpty then some .arrayEmpty else none
  | .array l => if l.isEmpty then some .arrayEmpty else none
  | .map none => if allowNil then none else some .required
  | .map (some m) => if m.isEmpty then some .mapEmpty else none
  | .iface (some (.str s)) => if s == "" then some .stringEmpty else none
  | .iface (some (.arr l)) => if l.isEmpty then some .arrayEmpty else none
  | .iface (some (.map m)) => if m.isEmpty then some .mapEmpty else none
  | _ => none

def isZeroNum : GoVal → Option Bool
  | .scalar (.dur d) => some (d == 0)
  | .scalar (.int i) => some (i == 0)
  | .scalar (.uint n) => some (n == 0)
  | .scalar (.float b) => some (F64.isZeroBits b)
  | .iface (some (.int i)) => some (i == 0)
  | .iface (some (.uint n)) => some (n == 0)
  | .iface (some (.float b)) => some (F64.isZeroBits b)
  | _ => none

/-- validateNonZero -/
def validateNonZero (v : GoVal) : Option VErr :=
  if v.isNilIface then none
  else match v with
    | .scalar (.dur d) => if d == 0 then some .zero else none
    | _ =>
      match isZeroNum v.chase with
      | some z => if z then some .zero else none
      | none => validateNonEmpty v true

/-- validatePositive (kinds are looked at without following pointers; unsigned kinds pass) -/
def validatePositive (v : GoVal) : Option VErr :=
  match v with
  | .scalar (.dur d) => if d < 0 then some .negative else none
  | .scalar (.int i) => if i ≥ 0 then none else some .negative
  | .scalar (.float b) => if F64.ltBits b 0 then some .negative else (if (F64.decode b).isNaN then some .negative else none)
  | .iface (some (.int i)) => if i ≥ 0 then none else some .negative
  | .iface (some (.float b)) => if F64.ltBits b 0 then some .negative else (if (F64.decode b).isNaN then some .negative else none)
  | _ => none

/-- param2Duration -/
def param2Duration (std : Stdlib) (param : String) : Option Int :=
  match std.parseDuration param with
  | some d => some d
  | none =>
    match std.parseFloat param with
    | none => none
    | some f =>
      let ns := F64.decode (F64.mul f secondBits)
      some (goInt64OfFloat ns)

/-- validateMin / validateMax (`isMin` selects the direction) -/
def validateBound (std : Stdlib) (isMin : Bool) (v : GoVal) (param : String) : Option VErr :=
  let cmpI (x b : Int) : Bool := if isMin then x ≥ b else x ≤ b
  let cmpF (x b : Nat) : Bool :=        -- float compare: x >= b / x <= b (false on NaN)
    if isMin then !(F64.ltBits x b) && !(F64.decode x).isNaN && !(F64.decode b).isNaN
    else !(F64.ltBits b x) && !(F64.decode x).isNaN && !(F64.decode b).isNaN
  let intCase (x : Int) : Option VErr :=
    match IntLit.parseIntS param with
    | none => some .param
    | some b => if cmpI x b then none else some .bound
  let uintCase (x : Nat) : Option VErr :=
    match IntLit.parseUintS param with
    | none => some .param
    | some b => if cmpI x b then none else some .bound
  let floatCase (x : Nat) : Option VErr :=
    match std.parseFloat param with
    | none => some .param
    | some b => if cmpF x b then none else some .bound
  match v with
  | .scalar (.dur d) =>
    (match param2Duration std param with
     | none => some .param
     | some b => if cmpI d b then none else some .bound)
  | .scalar (.int i) => intCase i
  | .scalar (.uint n) => uintCase n
  | .scalar (.float b) => floatCase b
  | .iface (some (.int i)) => intCase i
  | .iface (some (.uint n)) => uintCase n
  | .iface (some (.float b)) => floatCase b
  | _ => none

/-- validateRequired -/
def validateRequired (v : GoVal) : Option VErr :=
  if v.isNilIface then some .required
  else match v with
    | .ptr none => some .required
    | _ =>
      match isZeroNum v with
      | some z => if z then some .required else none
      | none => validateNonEmpty v false

def runValidator (std : Stdlib) (t : VTag) (v : GoVal) : Option VErr :=
  if t.name == "nonzero" then validateNonZero v
  else if t.name == "positive" then validatePositive v
  else if t.name == "min" then validateBound std true v t.param
  else if t.name == "max" then validateBound std false v t.param
  else if t.name == "required" then validateRequired v
  else none

/-- runValidators: the first failing one -/
def runValidators (std : Stdlib) (vs : List VTag) (v : GoVal) : Option VErr :=
  vs.findSome? (fun t => runValidator std t v)

/-- util.go accessField: `none` = skipped (unexported / ignored) -/
structure FieldInfo where
  name : String
  tag : TagOpts
  validators : List VTag
  handling : Handling          -- configValueHandling in force for the field's sub-operations

def accessField (o : Opts) (goName tag vtag : String) : Outcome (Option FieldInfo) :=
  if !exported goName then .ok none
  else
    let (name, topts) := parseTags tag
    if topts.ignore then .ok none
    else match parseValidatorTags vtag with
      | none => .err { reason := .other, msg := some "unknown validator" }     -- raiseCritical
      | some vs =>
        -- "create new context, overwriting configValueHandling for all sub-operations"
        let h := if topts.handling != o.handling then topts.handling else o.handling
        .ok (some ⟨fieldName name goName, topts, vs, h⟩)

mutual
/-- tryRecursiveValidate(val, opts, validators) on a finished value -/
def recValidate (std : Stdlib) (o : Opts) : Ty → List VTag → GoVal → Option VErr
  | ty, vs, v =>
    match runValidators std vs v with
    | some e => some e
    | none =>
      match ty, v with
      | .ptr t, .ptr (some x) => recValidate std o t [] x
      | .strct fs, .strct xs => recValidateFields std o fs xs
      | .map t, .map (some m) => recValidateMap std o t m
      | .slice t, .slice (some l) => recValidateList std o t l
      | .array _ t, .array l => recValidateList std o t l
      | _, _ => none
def recValidateFields (std : Stdlib) (o : Opts) : List (String × String × String × Ty) → List GoVal → Option VErr
  | (g, tag, vtag, t) :: fr, x :: xr =>
    match accessField o g tag vtag with
    | .ok (some fi) =>
      (match recValidate std o t fi.validators x with
       | some e => some e
       | none => recValidateFields std o fr xr)
    | .ok none => recValidateFields std o fr xr
    | _ => some .param
  | _, _ => none
def recValidateMap (std : Stdlib) (o : Opts) (t : Ty) : List (String × GoVal) → Option VErr
  | [] => none
  | (_, x) :: r =>
    match recValidate std o t [] x with
    | some e => some e
    | none => recValidateMap std o t r
def recValidateList (std : Stdlib) (o : Opts) (t : Ty) : List GoVal → Option VErr
  | [] => none
  | x :: r =>
    match recValidate std o t [] x with
    | some e => some e
    | none => recValidateList std o t r
end

def raiseValidation {α : Type} (e : VErr) : Outcome α := .err { reason := e.reason }

/-- reify.go castArr on a reference-free value -/
def castArr : Val → List Val
  | .sub _ a _ _ => a
  | .prim .nil => []
  | v => [v]

def gmapGet (m : List (String × GoVal)) (k : String) : Option GoVal := (m.find? (·.1 == k)).map (·.2)

def gmapSet : List (String × GoVal) → String → GoVal → List (String × GoVal)
  | [], k, v => [(k, v)]
  | (k', v') :: r, k, v =>
    if k = k' then (k', v) :: r
    else if k < k' then (k, v) :: (k', v') :: r
    else (k', v') :: gmapSet r k v

structure FOpts where
  opts : Opts
  handling : Handling := .dflt          -- tag.cfgHandling
  validators : List VTag := []

/-- fieldOptions.configHandling -/
def FOpts.cfgHandling (f : FOpts) : Handling := if f.handling = .dflt then f.opts.handling else f.handling

/-- the generic datum an interface{} target receives (val.reify) as a GoVal -/
def ifaceOf (d : Data) : GoVal :=
  match d with
  | .nil => .iface none
  | d => .iface (some d)

/-- what an interface{} slot holds, as a value of the dynamic type's universe -/
def heldToGoVal : Data → GoVal
  | .map m => .map (some (hm m))
  | .arr l => .slice (some (hl l))
  | d => .iface (some d)
where
  hm : List (String × Data) → List (String × GoVal)
    | [] => []
    | (k, v) :: r => (k, .iface (some v)) :: hm r
  hl : List Data → List GoVal
    | [] => []
    | v :: r => .iface (some v) :: hl r

/-- back to the generic datum (elements are interface{} slots) -/
def goValToHeld : GoVal → Option Data
  | .iface d => d
  | .map (some m) => some (.map (bm m))
  | .slice (some l) => some (.arr (bl l))
  | _ => none
where
  bm : List (String × GoVal) → List (String × Data)
    | [] => []
    | (k, .iface (some d)) :: r => (k, d) :: bm r
    | (k, .iface none) :: r => (k, .nil) :: bm r
    | (k, v) :: r => (k, (goValToHeld v).getD .nil) :: bm r
  bl : List GoVal → List Data
    | [] => []
    | .iface (some d) :: r => d :: bl r
    | .iface none :: r => .nil :: bl r
    | v :: r => (goValToHeld v).getD .nil :: bl r

/-- the kind reifyPrimitive converts to when the old value of an interface{} slot is a primitive -/
def kindOfHeld : Data → Option Kind
  | .bool _ => some .bool
  | .int _ => some (.int 64)
  | .uint _ => some (.uint 64)
  | .float _ => some (.float 64)
  | .str _ => some .string
  | _ => none

def scalarToData : Scalar → Data
  | .bool b => .bool b
  | .int i => .int i
  | .uint n => .uint n
  | .float f => .float f
  | .str s => .str s
  | .dur d => .int d

mutual
/-- reify.go reifyMergeValue: the new content of a slot of static type `ty` that holds `old` -/
def mergeValue (std : Stdlib) : Nat → FOpts → Ty → GoVal → Val → Outcome GoVal
  | 0, _, _, _, _ => .fuel
  | n+1, fo, ty, old, v =>
    match ty, old with
    -- nil pointer / nil interface: a fresh value of the static type
    | .ptr t, .ptr none => reifyValue std n fo (.ptr t) v
    | .iface, .iface none => reifyValue std n fo .iface v
    -- non-nil pointer: merge into the pointee
    | .ptr t, .ptr (some x) => do
      let x' ← mergeValue std n fo t x v
      .ok (.ptr (some x'))
    -- interface holding data: merged according to the dynamic type of what it holds
    | .iface, .iface (some d) =>
      -- the interface is chased: the held value is merged according to ITS dynamic type
      (match d with
       | .map _ => do
         let r ← mergeValue std n { fo with validators := fo.validators } (.map .iface) (heldToGoVal d) v
         .ok (.iface (goValToHeld r))
       | .arr _ => do
         let r ← mergeValue std n fo (.slice .iface) (heldToGoVal d) v
         .ok (.iface (goValToHeld r))
       | d =>
         (match kindOfHeld d with
          | none => do let nd ← reifyP v; .ok (ifaceOf nd)
          | some k => do
            match ← reifyPrimitiveT std fo (.prim k) v with
            | .scalar sc => .ok (.iface (some (scalarToData sc)))
            | _ => .ok (.iface (some d))))
    | .map t, .map m =>
      (match toCfg? v with
       | none => raise .expectedObject
       | some sub => reifyMapT std n fo.opts fo.validators t m sub)
    | .strct fs, .strct xs =>
      (match toCfg? v with
       | none => raise .expectedObject
       | some sub => do
         let xs' ← reifyStructT std n fo.opts fs xs sub
         .ok (.strct xs'))
    | .array sz t, .array xs =>
      let arr := castArr v
      if arr.length != sz then raise .arraySizeMismatch
      else do
        let xs' ← doArray std n fo t 0 xs arr
        finishArray std fo (.array xs')
    | .slice t, .slice l => sliceMerge std n fo t l v
    | .regexp, .regex _ =>
      (match toCfg? v with
       | none => raise .expectedObject
       | some _ => .ok old)
    | .config, .cfg _ => raise .pointerRequired
    | .badmap, _ =>
      (match toCfg? v with
       | none => raise .expectedObject
       | some _ => raise .typeMismatch)              -- raiseKeyInvalidTypeUnpack
    | ty, _ => reifyPrimitiveT std fo ty v

/-- reify.go reifyValue: a fresh value of type `ty` -/
def reifyValue (std : Stdlib) : Nat → FOpts → Ty → Val → Outcome GoVal
  | 0, _, _, _ => .fuel
  | n+1, fo, ty, v =>
    match ty with
    | .iface => do
      let d ← reifyP v
      -- the validators of an interface{} field apply to the value it receives (the repaired D50)
      match runValidators std fo.validators (ifaceOf d) with
      | some e => raiseValidation e
      | none => .ok (ifaceOf d)
    | .ptr t => do
      -- pointerize: a pointer to the value of the base type (also for nil settings)
      let x ← reifyValue std n fo t v
      .ok (.ptr (some x))
    | .strct fs =>
      (match toCfg? v with
       | none => raise .typeMismatch                 -- reifyPrimitive on a struct type: not convertible
       | some sub => do
         let xs ← reifyStructT std n fo.opts fs (zeroFields fs) sub
         .ok (.strct xs))
    | .map t =>
      (match toCfg? v with
       | none => raise .expectedObject
       | some sub => reifyMapT std n fo.opts [] t none sub)
    | .slice t => sliceMerge std n fo t none v
    | .array sz t =>
      -- a fixed-size array that has to be created: a fresh one is filled like an existing one (a null setting falls
      -- through to reifyPrimitive's zero value)
      if v.isNilPrim then reifyPrimitiveT std fo (.array sz t) v
      else
        let arr := castArr v
        if arr.length != sz then raise .arraySizeMismatch
        else do
          let xs' ← doArray std n fo t 0 (List.replicate sz (zeroOf t)) arr
          finishArray std fo (.array xs')
    | .regexp =>
      -- regexp.Regexp is a struct: an object (or list) setting is "unpacked" into its unexported fields, i.e. not at all
      (match toCfg? v with
       | some _ => .ok (.regex "")
       | none => reifyPrimitiveT std fo .regexp v)
    | .config =>
      (match toCfg? v with
       | none => raise .expectedObject
       | some sub => .ok (.cfg (some sub)))
    | .badmap =>
      (match toCfg? v with
       | none => raise .expectedObject
       | some _ => raise .typeMismatch)              -- raiseKeyInvalidTypeUnpack
    | ty => reifyPrimitiveT std fo ty v

/-- reify.go reifyPrimitive (+ the array / regexp cases that end up in it) -/
def reifyPrimitiveT (std : Stdlib) (fo : FOpts) : Ty → Val → Outcome GoVal
  | ty, v =>
    if v.isNilPrim then
      -- "zero initialize value if val==nil"; the elements of a zero array are validated like elements left as they are
      match ty with
      | .array _ _ =>
        (match recValidate std fo.opts ty [] (zeroOf ty) with
         | some e => raiseValidation e
         | none => .ok (zeroOf ty))
      | _ => .ok (zeroOf ty)
    else
      match ty with
      | .prim k =>
        (match v with
         | .prim p =>
           (match reifyPrim std k p with
            | .ok s =>
              (match runValidators std fo.validators (.scalar s) with
               | some e => raiseValidation e
               | none => .ok (.scalar s))
            | .err e => .err e
            | .panic m => .panic m
            | .fuel => .fuel)
         | .sub .. =>
           -- val.toX on an object: type mismatch (string target: toString fails as well)
           .err { reason := .typeMismatch }
         | .dyn .. => .err { reason := .other, msg := some "MODEL-UNSUPPORTED reference in typed unpack" })
      | .regexp =>
        (match v with
         | .prim p =>
           (match p.toStr std with
            | .ok s =>
              if std.regexOk s then
                (match runValidators std fo.validators (.regex s) with
                 | some e => raiseValidation e
                 | none => .ok (.regex s))
              else .err { reason := .other }
            | _ => .err { reason := .typeMismatch })
         | _ => .err { reason := .typeMismatch })
      | _ => raise .typeMismatch          -- raiseToTypeNotSupported (arrays as fresh values, …)

/-- reify.go reifyMap -/
def reifyMapT (std : Stdlib) : Nat → Opts → List VTag → Ty → Option (List (String × GoVal)) → Val → Outcome GoVal
  | 0, _, _, _, _, _ => .fuel
  | n+1, o, vs, t, m0, sub =>
    let m := m0.getD []
    match sub.dict with
    | [] =>
      (match recValidate std o (.map t) vs (.map (some m)) with
       | some e => raiseValidation e
       | none => .ok (.map (some m)))
    | d => do
      let m' ← mapEntries std n o t m d
      -- entries the configuration does not mention must validate as well
      match recValidateMap std o t (m'.filter (fun (k, _) => !(d.any (·.1 == k)))) with
      | some e => raiseValidation e
      | none =>
        match runValidators std vs (.map (some m')) with
        | some e => raiseValidation e
        | none => .ok (.map (some m'))

def mapEntries (std : Stdlib) : Nat → Opts → Ty → List (String × GoVal) → List (String × Val) → Outcome (List (String × GoVal))
  | 0, _, _, _, _ => .fuel
  | _+1, _, _, m, [] => .ok m
  | n+1, o, t, m, (k, v) :: r => do
    let nv ← (match gmapGet m k with
      | none => reifyValue std n { opts := o } t v
      | some old => mergeValue std n { opts := o } t old v)
    -- an invalid reflect.Value (a nil datum for an interface{} element) is not stored
    let m' := match nv with
      | .iface none => m
      | nv => gmapSet m k nv
    mapEntries std n o t m' r

/-- reify.go reifyStruct's field loop -/
def reifyStructT (std : Stdlib) : Nat → Opts → List (String × String × String × Ty) → List GoVal → Val → Outcome (List GoVal)
  | 0, _, _, _, _ => .fuel
  | n+1, o, (g, tag, vtag, t) :: fr, x :: xr, cfg => do
    match ← accessField o g tag vtag with
    | none => do
      let rest ← reifyStructT std n o fr xr cfg
      .ok (x :: rest)
    | some fi =>
      let o' := { o with handling := fi.handling }
      let fo : FOpts := { opts := o', handling := fi.tag.handling, validators := fi.validators }
      let x' ← (if fi.tag.squash then
          (match t, x with
           | .ptr _, .ptr none => raise .typeMismatch        -- raiseInlineNeedsObject: chaseValue stops at a nil pointer
           | _, _ => .ok ()) *> (match t with
           | .strct _ | .map _ | .ptr (.strct _) | .ptr (.map _) => do
             let r ← mergeValue std n { opts := o' } t x cfg
             -- the validators declared on the inlined field itself
             match runValidators std fi.validators r with
             | some e => raiseValidation e
             | none => .ok r
           | .slice _ | .array _ _ => mergeValue std n fo t x cfg
           | .config =>
             -- reifyInto / tryTConfig: the whole config is merged into the inlined Config value
             (match x with
              | .cfg c => .ok (.cfg (some (mergeCfg o' (c.getD Val.empty) cfg)))
              | _ => raise .typeMismatch)
           | .ptr .config =>
             (match x with
              | .ptr (some (.cfg c)) => .ok (.ptr (some (.cfg (some (mergeCfg o' (c.getD Val.empty) cfg)))))
              | _ => raise .typeMismatch)
           | _ => raise .typeMismatch)
        else getField' std n fo t x cfg fi.name)
      let rest ← reifyStructT std n o fr xr cfg
      .ok (x' :: rest)
  | _+1, _, _, xs, _ => .ok xs

/-- reify.go reifyGetField -/
def getField' (std : Stdlib) : Nat → FOpts → Ty → GoVal → Val → String → Outcome GoVal
  | 0, _, _, _, _, _ => .fuel
  | n+1, fo, t, x, cfg, name =>
    let vR : Outcome (Option Val) := match pathGet tcPlain (parsePathOpts name fo.opts) cfg with
      | .ok v => .ok v
      | .err e => if e.reason = .missing then .ok none else .err e
      | .panic s => .panic s
      | .fuel => .fuel
    match vR with
    | .err e => .err e
    | .panic s => .panic s
    | .fuel => .fuel
    | .ok v? =>
      if Val.isNilOpt v? then
        match t with
        | .strct _ =>
          -- structs are always initialised (nested types may carry defaults): merge a nil setting
          mergeValue std n fo t x Val.nilV
        | _ =>
          -- pointers and non-struct kinds: only validated, the field stays as it is
          (match recValidate std fo.opts t fo.validators x with
           | some e => raiseValidation e
           | none => .ok x)
      else
        match v? with
        | some v => do
          let nx ← mergeValue std n fo t x v
          -- an invalid reflect.Value (nil into interface{}) leaves the field as it is
          match t, nx with
          | .iface, .iface none => .ok x
          | _, nx => .ok nx
        | none => .ok x

/-- reify.go reifySliceMerge -/
def sliceMerge (std : Stdlib) : Nat → FOpts → Ty → Option (List GoVal) → Val → Outcome GoVal
  | 0, _, _, _, _ => .fuel
  | n+1, fo, t, old, v =>
    let arr := castArr v
    let h := fo.cfgHandling
    let l := arr.length
    match old with
    | none => do
      let xs ← doArray std n fo t 0 (List.replicate l (zeroOf t)) arr
      finishArray std fo (.slice (some xs))
    | some ol =>
      let oln := ol.length
      let (total, start, cpyStart) :=
        if h = .replace then (l, 0, 0)
        else if h = .append then (l + oln, oln, 0)
        else if h = .prepend then (l + oln, 0, l)
        else (max l oln, 0, 0)
      -- tmp := MakeSlice(total); Copy(tmp[cpyStart:], old)
      let tmp := (List.replicate cpyStart (zeroOf t)) ++
        ((ol.take (total - cpyStart)) ++ List.replicate (total - cpyStart - (ol.take (total - cpyStart)).length) (zeroOf t))
      do
        let xs ← doArray std n fo t start tmp arr
        finishArray std fo (.slice (some xs))

/-- reify.go reifyDoArray's element loop: `start` elements are kept (validated), then the settings -/
def doArray (std : Stdlib) : Nat → FOpts → Ty → Nat → List GoVal → List Val → Outcome (List GoVal)
  | 0, _, _, _, _, _ => .fuel
  | _+1, _, _, _, [], _ => .ok []
  | n+1, fo, t, start + 1, x :: xr, arr =>
    (match recValidate std fo.opts t [] x with
     | some e => raiseValidation e
     | none => do
       let rest ← doArray std n fo t start xr arr
       .ok (x :: rest))
  | n+1, fo, t, 0, x :: xr, [] =>
    (match recValidate std fo.opts t [] x with
     | some e => raiseValidation e
     | none => do
       let rest ← doArray std n fo t 0 xr []
       .ok (x :: rest))
  | n+1, fo, t, 0, x :: xr, v :: vr => do
    let nx ← mergeValue std n fo t x v
    let x' := match t, nx with
      | .iface, .iface none => x
      | _, nx => nx
    let rest ← doArray std n fo t 0 xr vr
    .ok (x' :: rest)

/-- the tail of reifyDoArray: the field's validators on the whole list -/
def finishArray (std : Stdlib) (fo : FOpts) : GoVal → Outcome GoVal
  | v =>
    match runValidators std fo.validators v with
    | some e => raiseValidation e
    | none => .ok v
end

def unpackFuel : Nat := 400

/-- the type behind all pointers (util.go chaseTypePointers) -/
def Ty.base : Ty → Ty
  | .ptr t => t.base
  | t => t

/-- (*Config).Unpack(&target) for a target of type `ty` currently holding `old`
    (reifyInto: pointers are chased up to the first nil one) -/
def unpack (std : Stdlib) (o : Opts) (ty : Ty) (old : GoVal) (cfg : Val) : Outcome GoVal :=
  match ty with
  | .ptr t =>
    (match old with
     | .ptr (some v) => do let r ← unpack std o t v cfg; .ok (.ptr (some r))
     | .ptr none =>
       (match t.base with
        | .strct _ | .map _ | .config => do
          -- a nil pointer to a struct / map / Config: what it points to is allocated, then filled
          let r ← unpack std o t (zeroOf t) cfg
          .ok (.ptr (some r))
        | .slice _ | .array _ _ => mergeValue std unpackFuel { opts := o } (.ptr t) (.ptr none) cfg
        | _ => raise .typeMismatch)
     | _ => raise .typeMismatch)
  | .map t => (match old with
    | .map m => reifyMapT std unpackFuel o [] t m cfg
    | _ => raise .typeMismatch)
  | .strct fs => (match old with
    | .strct xs => do let xs' ← reifyStructT std unpackFuel o fs xs cfg; .ok (.strct xs')
    | _ => raise .typeMismatch)
  | .slice _ | .array _ _ => mergeValue std unpackFuel { opts := o } ty old cfg
  | .config => (match old with
    | .cfg c => .ok (.cfg (some (mergeCfg o (c.getD Val.empty) cfg)))
    | _ => raise .typeMismatch)
  | _ => raise .typeMismatch          -- raiseInvalidTopLevelType

end Ucfg
