import Ucfg.Model.Data
import Ucfg.Model.Vars
import Ucfg.Model.Merge
/-
  merge.go normalize*: Go value → configuration tree, dotted keys, duplicate
  detection (normalizeSetField / normalizeCombine), struct tags (util.go parseTags).
-/
namespace Ucfg
open Outcome

/-- util.go tagOptions -/
structure TagOpts where
  squash : Bool := false
  ignore : Bool := false
  handling : Handling := .dflt
  deriving Repr, Inhabited, DecidableEq

/-- util.go parseTags -/
def parseTags (tag : String) : String × TagOpts :=
  match splitOn tag "," with
  | [] => ("", {})
  | name :: opts =>
    (name, opts.foldl (fun (o : TagOpts) opt =>
      if opt == "squash" || opt == "inline" then { o with squash := true }
      else if opt == "ignore" then { o with ignore := true }
      else if opt == "merge" then { o with handling := .merge }
      else if opt == "replace" then { o with handling := .replace }
      else if opt == "append" then { o with handling := .append }
      else if opt == "prepend" then { o with handling := .prepend }
      else o) {})

/-- upper-case letters outside ASCII the model knows: Latin-1 (À-Þ without ×), Greek (Α-Ω) and Cyrillic (А-Я) capitals.
unicode.IsUpper / strings.ToLower on anything else is outside the model (the generators stay inside) -/
def upperNonAscii (c : Char) : Bool :=
  let n := c.toNat
  (0xC0 ≤ n && n ≤ 0xDE && n != 0xD7) || (0x391 ≤ n && n ≤ 0x3A9 && n != 0x3A2) || (0x410 ≤ n && n ≤ 0x42F)

/-- strings.ToLower on the letters the model knows (the three blocks above lower-case by adding 0x20) -/
def goLower (s : String) : String :=
  String.ofList (s.toList.map (fun c => if upperNonAscii c then Char.ofNat (c.toNat + 0x20) else c.toLower))

/-- util.go fieldName -/
def fieldName (tagName goName : String) : String :=
  if tagName != "" then tagName else goLower goName

/-- util.go accessField: unicode.IsUpper on the first rune -/
def exported (goName : String) : Bool :=
  match goName.toList with
  | c :: _ => c.isUpper || upperNonAscii c
  | [] => false

/-- merge.go normalizeString -/
def normalizeString (o : Opts) (s : String) : Outcome Val :=
  if !o.varexp then .ok (.prim (.str s))
  else match parseSplice s o.varCfg with
    | .ok (.const c) => .ok (.prim (.str c))
    | .ok e => .ok (.dyn 0 e)
    | .err _ => raise .other          -- raiseParseSplice: reason is the parser's error
    | .panic s => .panic s
    | .fuel => .fuel

/-! ### normalizeCombine: two definitions of overlapping names inside one input -/
mutual
/-- `none` = keep what is there, `some x` = store x -/
def combineV (old : Option Val) (v : Val) : Outcome (Option Val) :=
  match v with
  | .prim .nil =>
    -- a null adds nothing to a name that exists, and makes a name exist that does not (as it does when visited first)
    match old with
    | none => .ok (some Val.nilV)
    | some _ => .ok none
  | .sub d2 a2 hd2 ha2 =>
    match old with
    | none => .ok (some (cpy (.sub d2 a2 hd2 ha2)))
    | some (.prim .nil) => .ok (some (cpy (.sub d2 a2 hd2 ha2)))
    | some (.sub d1 a1 hd1 ha1) => do
      let d' ← combineD d1 d2
      let a' ← combineA 0 a1 a2
      .ok (some (.sub d' a' (hd1 || !d'.isEmpty) (ha1 || !a'.isEmpty)))
    | some _ => raise .duplicateKey
  | v =>
    match old with
    | none => .ok (some (cpy v))
    | some (.prim .nil) => .ok (some (cpy v))
    | some _ => raise .duplicateKey
termination_by structural v
def combineD (d1 : Dict) (d2 : Dict) : Outcome Dict :=
  match d2 with
  | [] => .ok d1
  | (k, v) :: r => do
    match ← combineV (dget d1 k) v with
    | none => combineD d1 r
    | some x => combineD (dset d1 k x) r
termination_by structural d2
def combineA (i : Nat) (a1 : List Val) (a2 : List Val) : Outcome (List Val) :=
  match a2 with
  | [] => .ok a1
  | v :: r => do
    match ← combineV a1[i]? v with
    | none => combineA (i + 1) a1 r
    | some x => combineA (i + 1) (asetNat a1 i x) r
termination_by structural a2
end

/-- merge.go viaPrimitive: the path finds its value by reading index 0 of a primitive (which reads as the primitive itself) -/
def viaPrimitive (p : List Field) (cfg : Val) : Bool :=
  if p.length < 2 then false
  else match pathGet tcPlain p.dropLast cfg with
    | .ok (some v) => !v.isNilPrim && !v.isSub
    | _ => false

/-- merge.go normalizeSetField, given the already normalized value -/
def setField (o : Opts) (cfg : Val) (name : String) (val : Val) : Outcome Val :=
  let p := parsePathOpts name o
  let oldR : Outcome (Option Val) :=
    match pathGet tcPlain p cfg with
    | .ok v => .ok v
    | .err e =>
      if e.reason = .missing then .ok none
      else if e.reason = .expectedObject then raise .duplicateKey
      else .err e
    | .panic s => .panic s
    | .fuel => .fuel
  match oldR with
  | .err e => .err e
  | .panic s => .panic s
  | .fuel => .fuel
  | .ok old =>
    if !Val.isNilOpt old && val.isNilPrim then
      (if viaPrimitive p cfg then raise .duplicateKey else .ok cfg)
    else if Val.isNilOpt old then
      match pathSet tcPlain o p cfg val with
      | .err e => if e.reason = .expectedObject then raise .duplicateKey else .err e
      | r => r
    else if Val.isSubOpt old && val.isSub then
      -- combine in place: rebuild the tree with the combined node at p
      match combineV old val with
      | .ok none => .ok cfg
      | .ok (some x) =>
        -- the node at p exists and is a config: replace it where it is
        (match pathSet tcPlain o p cfg x with
         | .err e => .err e
         | r => r)
      | .err e => .err e
      | .panic s => .panic s
      | .fuel => .fuel
    else raise .duplicateKey

mutual
/-- merge.go normalizeValue -/
def normValue (o : Opts) : GoData → Outcome Val
  | .nil => .ok Val.nilV
  | .bool b => .ok (.prim (.bool b))
  | .int i => .ok (if i > 0 then .prim (.uint i.toNat) else .prim (.int i))
  | .uint n => .ok (.prim (.uint n))
  | .float b => .ok (.prim (.float b))
  | .str s => normalizeString o s
  | .dur t => .ok (.prim (.str t))
  | .regex t => .ok (.prim (.str t))
  | .list l => do
    let a ← normList o l
    .ok (.sub [] a false true)
  | .map m => normMapInto o Val.empty m
  | .strct fs => normStructInto o Val.empty fs
  | .cfg v => .ok (cpy v)
  | .unsupported => raise .typeMismatch
  | .badKeyMap => raise .keyTypeNotString
/-- normalizeArray's element loop -/
def normList (o : Opts) : List GoData → Outcome (List Val)
  | [] => .ok []
  | x :: r => do
    let v ← normValue o x
    let rest ← normList o r
    .ok (v :: rest)
/-- normalizeMapInto: entries in the given (iteration) order -/
def normMapInto (o : Opts) (cfg : Val) : List (String × GoData) → Outcome Val
  | [] => .ok cfg
  | (k, x) :: r => do
    let v ← normValue o x
    let cfg' ← setField o cfg k v
    normMapInto o cfg' r
/-- normalizeStructInto -/
def normStructInto (o : Opts) (cfg : Val) : List (String × String × GoData) → Outcome Val
  | [] => .ok cfg
  | (goName, tag, x) :: r =>
    if !exported goName then normStructInto o cfg r
    else
      let (name, topts) := parseTags tag
      if topts.ignore then normStructInto o cfg r
      else if topts.squash then
        match x with
        | .strct fs => do
          let cfg' ← normStructInto o cfg fs
          normStructInto o cfg' r
        | .map m => do
          let cfg' ← normMapInto o cfg m
          normStructInto o cfg' r
        | _ => raise .typeMismatch
      else do
        let v ← normValue o x
        let cfg' ← setField o cfg (fieldName name goName) v
        normStructInto o cfg' r
end

/-- merge.go normalize: the top level accepts only dictionaries, structs, lists and configs -/
def normalize (o : Opts) : GoData → Outcome Val
  | .cfg v => .ok v
  | .map m => normMapInto o Val.empty m
  | .strct fs => normStructInto o Val.empty fs
  | .list l => do
    let a ← normList o l
    .ok (.sub [] a false true)
  | .badKeyMap => raise .keyTypeNotString
  | _ => raise .typeMismatch

/-- (*Config).Merge(from, opts...) on the data level -/
def cfgMerge (o : Opts) (c : Val) (frm : GoData) : Outcome Val :=
  match frm with
  | .nil => .ok c
  | _ => do
    let other ← normalize o frm
    .ok (mergeCfg o c other)

/-- ucfg.NewFrom -/
def newFrom (o : Opts) (frm : GoData) : Outcome Val := cfgMerge o Val.empty frm

end Ucfg
