import Ucfg.Base.IntLit
import Ucfg.Model.Tree
import Ucfg.Extracted
/-
  types.go: the primitive conversions value.toBool/toInt/toUint/toFloat/toString.
  Standard-library functions that are not modelled exactly are fields of
  `Stdlib` (the driver fills them from tables computed by the real stdlib; the
  theorems quantify over every Stdlib).
-/
namespace Ucfg
open Outcome

structure Stdlib where
  /-- strconv.ParseFloat(s, 64): bits, or none on error -/
  parseFloat : String → Option Nat
  /-- fmt.Sprintf("%v", f) -/
  fmtFloat : Nat → String
  /-- time.ParseDuration: nanoseconds -/
  parseDuration : String → Option Int
  /-- Duration.String() -/
  durString : Int → String
  /-- regexp.Compile succeeds -/
  regexOk : String → Bool

instance : Inhabited Stdlib := ⟨⟨fun _ => none, fun _ => "", fun _ => none, fun _ => "", fun _ => true⟩⟩

def minI64 : Int := -(2^63)
def maxI64 : Int := 2^63 - 1
def maxU64 : Nat := 2^64 - 1

/-- strconv.ParseBool -/
def parseBool (s : String) : Option Bool :=
  if s == "1" || s == "t" || s == "T" || s == "TRUE" || s == "true" || s == "True" then some true
  else if s == "0" || s == "f" || s == "F" || s == "FALSE" || s == "false" || s == "False" then some false
  else none

/-- math.MaxInt64 / math.MaxUint64 as float64 constants are 2^63 / 2^64. -/
def twoP63 : Int := 2^63
def twoP64 : Int := 2^64

/-- types.go cfgFloat.toInt guard: `math.IsNaN(f) || f < MinInt64 || MaxInt64 <= f` -/
def floatToIntOverflow (f : F64) : Bool := Extracted.guard_floatToInt_overflow f

/-- types.go cfgFloat.toUint second guard: `math.IsNaN(f) || f >= MaxUint64` -/
def floatToUintOverflow (f : F64) : Bool := Extracted.guard_floatToUint_overflow f

/-- Go's int64(f) on amd64 for a value that passed (or slipped past) the guard:
exact truncation when it fits, 0x8000000000000000 otherwise. -/
def goInt64OfFloat (f : F64) : Int :=
  match f with
  | .fin neg m e =>
    let t := F64.truncFin neg m e
    if minI64 ≤ t ∧ t ≤ maxI64 then t else minI64
  | _ => minI64

/-- Go's uint64(f) on amd64 for non-negative f: exact when it fits, else 2^63 (the
"indefinite" value of the cvttsd2si based sequence). -/
def goUint64OfFloat (f : F64) : Nat :=
  match f with
  | .fin _ m e =>
    let t := F64.truncMag m e
    if t ≤ maxU64 then t else 2^63
  | _ => 2^63

def Prim.toBool : Prim → Outcome Bool
  | .bool b => .ok b
  | .str s => match parseBool s with
    | some b => .ok b
    | none => raiseRaw .other
  | _ => raiseRaw .typeMismatch

def Prim.toInt : Prim → Outcome Int
  | .int i => .ok i
  | .uint u => if Extracted.guard_uintToInt_overflow u then raiseRaw .overflow else .ok u
  | .float b =>
    let f := F64.decode b
    if floatToIntOverflow f then raiseRaw .overflow else .ok (goInt64OfFloat f)
  | .str s => match IntLit.parseIntS s with
    | some i => .ok i
    | none => raiseRaw .other
  | _ => raiseRaw .typeMismatch

def Prim.toUint : Prim → Outcome Nat
  | .int i => if Extracted.guard_intToUint_negative i then raiseRaw .negative else .ok i.toNat
  | .uint u => .ok u
  | .float b =>
    let f := F64.decode b
    if Extracted.guard_floatToUint_negative f then raiseRaw .negative
    else if floatToUintOverflow f then raiseRaw .overflow
    else .ok (goUint64OfFloat f)
  | .str s => match IntLit.parseUintS s with
    | some n => .ok n
    | none => raiseRaw .other
  | _ => raiseRaw .typeMismatch

def Prim.toFloat (std : Stdlib) : Prim → Outcome Nat
  | .int i => .ok (F64.ofInt i)
  | .uint u => .ok (F64.ofInt u)
  | .float b => .ok b
  | .str s => match std.parseFloat s with
    | some b => .ok b
    | none => raiseRaw .other
  | _ => raiseRaw .typeMismatch

def Prim.toStr (std : Stdlib) : Prim → Outcome String
  | .nil => .ok "null"
  | .bool b => .ok (if b then "true" else "false")
  | .int i => .ok (toString i)
  | .uint u => .ok (toString u)
  | .float b => .ok (std.fmtFloat b)
  | .str s => .ok s

/-- typeInfo.name of value.typ() -/
def Prim.typeName : Prim → String
  | .nil => "any" | .bool _ => "bool" | .int _ => "int" | .uint _ => "uint"
  | .float _ => "float" | .str _ => "string"

end Ucfg
