/-!
  Identity-level model of Config trees: a heap of nodes, each storing its context (parent link and field name) next to
  its content, the way ucfg.go/types.go do.  This is the level at which C10 (merging copies, the source is untouched,
  nothing is shared), C11 (reads do not write) and C15 (the stored position is the actual position) are statements.

  Modelled primitives and where they live in the Go code:
    cpy        types.go  cfgSub.cpy / cfgPrimitive cpy      deep copy under a new context
    appendCpy  ucfg.go   fields.append                      copies get the next free indices
    setAt      ucfg.go   fields.setAt                       pads with nil nodes carrying their index
    delAt      ucfg.go   fields.delAt                       shifts down and renumbers
    setNamed / setIdx    path.go namedField/idxField.SetValue   SetContext + store
    attach     path.go + types.go cfgSub.SetContext         SetChild: the same object is stored
    storedPath types.go  context.path                       walks the stored parent links
  The content-level semantics of Merge (which value wins under which policy) is the business of Model/Merge.lean; here
  only *which nodes are created, written and linked* is described.
-/
namespace Ucfg.Forest

abbrev Id := Nat

inductive Body where
  | prim (kind : String) (val : String)          -- nil, bool, int, uint, float, string, dyn (unevaluated expression)
  | sub (d : List (String × Id)) (a : List Id)
  deriving Repr, DecidableEq, Inhabited

structure Node where
  parent : Option Id
  field : String
  body : Body
  deriving Repr, DecidableEq, Inhabited

abbrev Heap := List Node

def Body.children : Body → List Id
  | .prim .. => []
  | .sub d a => d.map (·.2) ++ a

/-- the field name of a list element: `fmt.Sprintf("%d", i)` -/
def idxName (i : Nat) : String := toString i

/-- `&cfgNil{ctx}` -/
def nilNode (parent : Option Id) (field : String) : Node := ⟨parent, field, .prim "nil" ""⟩

/-! ### deep copy -/

/-- copy the children in `cs` (keyed by κ) below the new node `me`, each keeping the field name it stores -/
def cpyList {κ : Type} (f : Heap → Id → Option Id → String → Option (Heap × Id)) (me : Id) :
    Heap → List (κ × Id) → Option (Heap × List (κ × Id))
  | h, [] => some (h, [])
  | h, (k, c) :: r =>
    match h[c]? with
    | none => none
    | some n =>
      match f h c (some me) n.field with
      | none => none
      | some (h1, c') =>
        match cpyList f me h1 r with
        | none => none
        | some (h2, r') => some (h2, (k, c') :: r')

/-- `v.cpy(ctx)`: `none` when the fuel does not cover the depth of the tree (or a link dangles) -/
def cpy : Nat → Heap → Id → Option Id → String → Option (Heap × Id)
  | 0, _, _, _, _ => none
  | n+1, h, id, p, f =>
    match h[id]? with
    | none => none
    | some ⟨_, _, .prim k v⟩ => some (h ++ [⟨p, f, .prim k v⟩], h.length)
    | some ⟨_, _, .sub d a⟩ =>
      let me := h.length
      let h1 := h ++ [⟨p, f, .sub [] []⟩]
      match cpyList (cpy n) me h1 d with
      | none => none
      | some (h2, d') =>
        match cpyList (cpy n) me h2 (a.map (fun c => ((), c))) with
        | none => none
        | some (h3, a') => some (h3.set me ⟨p, f, .sub d' (a'.map (·.2))⟩, me)

/-! ### the list part of a node -/

def getSub (h : Heap) (id : Id) : Option (Option Id × String × List (String × Id) × List Id) :=
  match h[id]? with
  | some ⟨p, f, .sub d a⟩ => some (p, f, d, a)
  | _ => none

def setBody (h : Heap) (id : Id) (b : Body) : Heap :=
  match h[id]? with
  | some n => h.set id { n with body := b }
  | none => h

def setField (h : Heap) (id : Id) (f : String) : Heap :=
  match h[id]? with
  | some n => h.set id { n with field := f }
  | none => h

def setCtx (h : Heap) (id : Id) (p : Option Id) (f : String) : Heap :=
  match h[id]? with
  | some n => h.set id { n with parent := p, field := f }
  | none => h

/-- `fields.append(parent, a)`: copies of the nodes `src`, stored behind the current elements under the next indices -/
def appendCpy (fuel : Nat) : Heap → Id → List Id → Option Heap
  | h, _, [] => some h
  | h, to, c :: r =>
    match getSub h to with
    | none => none
    | some (_, _, d, a) =>
      match cpy fuel h c (some to) (idxName a.length) with
      | none => none
      | some (h1, c') => appendCpy fuel (setBody h1 to (.sub d (a ++ [c']))) to r

/-- pad the list part of `to` with nil nodes up to (excluding) index `idx` (`fields.setAt`) -/
def padTo : Nat → Heap → Id → Nat → Heap
  | 0, h, _, _ => h
  | n+1, h, to, idx =>
    match getSub h to with
    | none => h
    | some (_, _, d, a) =>
      if a.length < idx then
        let h1 := h ++ [nilNode (some to) (idxName a.length)]
        padTo n (setBody h1 to (.sub d (a ++ [h.length]))) to idx
      else h

/-- `fields.setAt(idx, parent, v)` with `v` already carrying its context -/
def setAt (h : Heap) (to : Id) (idx : Nat) (c : Id) : Heap :=
  let h1 := padTo (idx + 1) h to idx
  match getSub h1 to with
  | none => h1
  | some (_, _, d, a) =>
    if idx < a.length then setBody h1 to (.sub d (a.set idx c))
    else setBody h1 to (.sub d (a ++ [c]))

/-- renumber the elements `a[j..]` to the indices they now have -/
def renumber : Heap → List Id → Nat → Heap
  | h, [], _ => h
  | h, c :: r, j => renumber (setField h c (idxName j)) r (j + 1)

/-- `fields.delAt(i)` -/
def delAt (h : Heap) (to : Id) (i : Nat) : Heap :=
  match getSub h to with
  | none => h
  | some (_, _, d, a) =>
    if i < a.length then
      let a' := a.eraseIdx i
      renumber (setBody h to (.sub d a')) (a'.drop i) i
    else h

/-! ### writes through the path API (top level of a node) -/

def dictSet (d : List (String × Id)) (k : String) (c : Id) : List (String × Id) :=
  if d.any (·.1 == k) then d.map (fun (k', c') => if k' == k then (k', c) else (k', c')) else d ++ [(k, c)]

/-- namedField.SetValue with a fresh primitive: `v.SetContext(ctx); fields.set(name, v)` -/
def setNamedPrim (h : Heap) (to : Id) (name kind val : String) : Heap :=
  match getSub h to with
  | none => h
  | some (_, _, d, a) =>
    let h1 := h ++ [⟨some to, name, .prim kind val⟩]
    setBody h1 to (.sub (dictSet d name h.length) a)

/-- idxField.SetValue with a fresh primitive -/
def setIdxPrim (h : Heap) (to : Id) (idx : Nat) (kind val : String) : Heap :=
  let c := h.length
  let h1 := h ++ [⟨some to, idxName idx, .prim kind val⟩]
  setAt h1 to idx c

/-- SetChild: cfgSub.SetContext writes the context only into a config that has none; an attached one is stored as it is -/
def attachCtx (h : Heap) (child : Id) (to : Id) (f : String) : Heap :=
  match h[child]? with
  | some n => if n.parent.isNone then h.set child { n with parent := some to, field := f } else h
  | none => h

def attachNamed (h : Heap) (to : Id) (name : String) (child : Id) : Heap :=
  let h1 := attachCtx h child to name
  match getSub h1 to with
  | none => h1
  | some (_, _, d, a) => setBody h1 to (.sub (dictSet d name child) a)

def attachIdx (h : Heap) (to : Id) (idx : Nat) (child : Id) : Heap :=
  setAt (attachCtx h child to (idxName idx)) to idx child

def dictDel (h : Heap) (to : Id) (name : String) : Heap :=
  match getSub h to with
  | none => h
  | some (_, _, d, a) => setBody h to (.sub (d.filter (·.1 != name)) a)

/-! ### writes through a whole path (path.go cfgPath.SetValue; getset.go SetChild) -/

inductive Seg where
  | name (s : String)
  | idx (i : Nat)
  deriving Repr, DecidableEq, Inhabited

def Seg.str : Seg → String
  | .name s => s
  | .idx i => idxName i

def isNilBody (n : Node) : Bool := match n.body with | .prim "nil" _ => true | _ => false

def plainKind (k : String) : Bool := k == "bool" || k == "int" || k == "uint" || k == "float" || k == "string"

/-- phase 1 of SetValue: `stop node rest` - the rest of the path is built below `node`; `err` - SetValue reports an error
and nothing changes; `unmodelled` - the walk leads through an expression (it would be evaluated) or a dangling link -/
inductive Walk where
  | stop (node : Id) (rest : List Seg)
  | err
  | unmodelled
  deriving Repr, DecidableEq

def walkSet : Heap → Id → List Seg → Walk
  | _, id, [] => .stop id []
  | _, id, [s] => .stop id [s]
  | h, id, s :: s2 :: r =>
    match h[id]? with
    | none => .unmodelled
    | some n =>
      match n.body with
      | .sub d a =>
        let c? : Option Id := match s with
          | .name k => (d.find? (·.1 == k)).map (·.2)
          | .idx i => a[i]?
        (match c? with
         | none => .stop id (s :: s2 :: r)                       -- missing: built from here
         | some c =>
           match h[c]? with
           | none => .unmodelled
           | some cn => if isNilBody cn then .stop id (s :: s2 :: r) else walkSet h c (s2 :: r))
      | .prim k _ =>
        if !plainKind k then .unmodelled
        else match s with
          | .idx 0 => walkSet h id (s2 :: r)                      -- idxField.GetValue: a primitive is its own element 0
          | _ => .err                                             -- raiseExpectedObject

/-- store `c` (which carries its context) under a segment of `to` (namedField / idxField.SetValue) -/
def storeSeg (h : Heap) (to : Id) (s : Seg) (c : Id) : Heap :=
  match s with
  | .name k =>
    (match getSub h to with
     | none => h
     | some (_, _, d, a) => setBody h to (.sub (dictSet d k c) a))
  | .idx i => setAt h to i c

/-- what is stored at the end of the path: a new primitive (Set*) or an existing config (SetChild) -/
inductive Leaf where
  | prim (kind val : String)
  | child (c : Id)
  deriving Repr, DecidableEq

def placeLeaf (h : Heap) (to : Id) (s : Seg) : Leaf → Heap
  | .prim k v => storeSeg (h ++ [⟨some to, s.str, .prim k v⟩]) to s h.length
  | .child c => storeSeg (attachCtx h c to s.str) to s c

/-- phases 2 and 3: a new object per missing segment, each stored under its name in the one above, the value in the last -/
def setChain : Heap → Id → List Seg → Leaf → Heap
  | h, _, [], _ => h
  | h, to, [s], l => placeLeaf h to s l
  | h, to, s :: s2 :: r, l =>
    let c := h.length
    setChain (storeSeg (h ++ [⟨some to, s.str, .sub [] []⟩]) to s c) c (s2 :: r) l

inductive SetRes where
  | ok (h : Heap)
  | err                 -- the call reports an error; no node reachable from a config changes
  | unmodelled
  deriving Repr, DecidableEq

def setPathH (h : Heap) (root : Id) (segs : List Seg) (l : Leaf) : SetRes :=
  match walkSet h root segs with
  | .unmodelled => .unmodelled
  | .err => .err
  | .stop to rest =>
    match getSub h to with
    | none => .err                                                -- raiseExpectedObject
    | some _ => .ok (setChain h to rest l)

/-- is `anc` on the stored parent chain of `id` (or `id` itself): `for p := c; p != nil; p = p.Parent()` -/
def onParentChain (h : Heap) : Nat → Id → Id → Bool
  | 0, _, _ => false
  | n+1, id, anc =>
    if id == anc then true else
    match h[id]? with
    | some nd => (match nd.parent with
      | some p => onParentChain h n p anc
      | none => false)
    | none => false

/-- getset.go Config.holds: is `target` the config `c` or stored somewhere below it -/
def holdsH : Nat → Heap → Id → Id → Bool
  | 0, _, _, _ => false
  | n+1, h, c, target =>
    c == target ||
    (match h[c]? with
     | some nd => nd.body.children.any (fun x => holdsH n h x target)
     | none => false)

/-- path.go cfgPath.container: the existing config the value (or the first missing object) will be stored in -/
def containerOf (h : Heap) (root : Id) (segs : List Seg) : Option Id :=
  match walkSet h root segs with
  | .stop to _ => if (getSub h to).isSome then some to else none
  | _ => none

/-- getset.go SetChild: refused (ErrCyclicReference) when the child is the receiver, one of the parents the receiver or
the container know of, or holds the container -/
def setChildH (fuel : Nat) (h : Heap) (c : Id) (segs : List Seg) (child : Id) : SetRes :=
  let cyc := onParentChain h fuel c child ||
    (match containerOf h c segs with
     | some t => onParentChain h fuel t child || holdsH fuel h child t
     | none => false)
  if cyc then .err else setPathH h c segs (.child child)

/-! ### reads -/

/-- context.path: the field names along the stored parent links (root first); empty names are skipped like in Go -/
def storedPath : Nat → Heap → Id → List String
  | 0, _, _ => []
  | n+1, h, id =>
    match h[id]? with
    | none => []
    | some nd =>
      match nd.parent with
      | none => if nd.field == "" then [] else [nd.field]
      | some p => storedPath n h p ++ (if nd.field == "" then [] else [nd.field])

def childNamed (h : Heap) (id : Id) (k : String) : Option Id :=
  match getSub h id with
  | some (_, _, d, _) => (d.find? (·.1 == k)).map (·.2)
  | none => none

def childAt (h : Heap) (id : Id) (i : Nat) : Option Id :=
  match getSub h id with
  | some (_, _, _, a) => a[i]?
  | none => none

/-! ### diff/keys.go CompareConfigs on two key lists -/

structure Diff where
  keep : List String
  add : List String
  remove : List String
  deriving Repr, DecidableEq

/-- the keys of a Go map: each once -/
def dedup : List String → List String
  | [] => []
  | x :: r => if r.contains x then dedup r else x :: dedup r

/-- CompareConfigs: old keys are marked Remove, new keys turn them into Keep or are added as Add -/
def compareKeys (old new : List String) : Diff :=
  { keep := (dedup old).filter (fun k => new.contains k),
    add := (dedup new).filter (fun k => !old.contains k),
    remove := (dedup old).filter (fun k => !new.contains k) }

def Diff.hasChanged (d : Diff) : Bool := !d.add.isEmpty || !d.remove.isEmpty

end Ucfg.Forest

namespace Ucfg.Forest

/-! ### Merge on the heap (merge.go mergeConfig / mergeConfigDict / mergeConfigArr at the identity level)

What is stored is always a copy of the source's node; an object of the destination that meets an object of the source is
merged in place.  `none`: the fuel does not cover the trees, a link dangles, or a null meets a value (which value wins is
the content model's business, Model/Merge.lean; the identity model stops there).  The fuel ticks on every setting. -/

inductive ArrPol where
  | merge | replace | replaceArr | append | prepend
  deriving DecidableEq, Repr, Inhabited

def isNilNode (n : Node) : Bool := match n.body with | .prim "nil" _ => true | _ => false
def isSubNode (n : Node) : Bool := match n.body with | .sub .. => true | _ => false
def isDynNode (n : Node) : Bool := match n.body with | .prim "dyn" _ => true | _ => false

/-- mergeValues asks both sides for a sub-configuration: a null yields an empty one, an unevaluated expression is
evaluated.  What happens then is the content model's business; the identity model goes on only where neither matters:
no null, and an expression only against a plain primitive (whatever it evaluates to, the new value is stored). -/
def unsettled (old new : Node) : Bool :=
  isNilNode old || isNilNode new ||
  (isDynNode old && (isSubNode new || isDynNode new)) || (isDynNode new && (isSubNode old || isDynNode old))

/-- the list part under a copying policy -/
def mergeListCopy (cf : Nat) (pol : ArrPol) (h : Heap) (to : Id) (fa : List Id) : Option Heap :=
  match pol with
  | .replace | .replaceArr =>
    if fa.isEmpty then some h
    else match getSub h to with
      | some (_, _, td, _) => appendCpy cf (setBody h to (.sub td [])) to fa
      | none => none
  | .prepend =>
    if fa.isEmpty then some h
    else match getSub h to with
      | some (_, _, td, ta) =>
        (match appendCpy cf (setBody h to (.sub td [])) to fa with
         | some h1 => appendCpy cf h1 to ta
         | none => none)
      | none => none
  | _ => appendCpy cf h to fa

mutual
/-- mergeConfig(to, from) -/
def mergeH : Nat → Nat → ArrPol → Heap → Id → Id → Option Heap
  | 0, _, _, _, _, _ => none
  | n+1, cf, pol, h, to, frm =>
    match getSub h to, getSub h frm with
    | some (_, _, _, ta0), some (_, _, fd, fa) =>
      let h0 := if !fd.isEmpty && pol == .replace then setBody h to (.sub [] ta0) else h
      match mergeDictH n cf pol h0 to fd with
      | none => none
      | some h1 =>
        if pol == .merge then mergeIdxH n cf pol h1 to 0 fa else mergeListCopy cf pol h1 to fa
    | _, _ => none
termination_by structural n => n
/-- the named settings of the source, one after the other -/
def mergeDictH : Nat → Nat → ArrPol → Heap → Id → List (String × Id) → Option Heap
  | 0, _, _, _, _, _ => none
  | _+1, _, _, h, _, [] => some h
  | n+1, cf, pol, h, to, (k, v) :: r =>
    match getSub h to, h[v]? with
    | some (_, _, td, ta), some vn =>
      let store : Option Heap :=
        match cpy cf h v (some to) k with
        | none => none
        | some (h1, c) => mergeDictH n cf pol (setBody h1 to (.sub (dictSet td k c) ta)) to r
      match (td.find? (·.1 == k)).map (·.2) with
      | none => store
      | some o =>
        match h[o]? with
        | none => none
        | some on =>
          if unsettled on vn then none
          else if isSubNode on && isSubNode vn then
            match mergeH n cf pol h o v with
            | none => none
            | some h1 => mergeDictH n cf pol h1 to r
          else store
    | _, _ => none
termination_by structural n => n
/-- mergeConfigMergeArr: index-wise while the destination has an element, the rest is appended -/
def mergeIdxH : Nat → Nat → ArrPol → Heap → Id → Nat → List Id → Option Heap
  | 0, _, _, _, _, _, _ => none
  | _+1, _, _, h, _, _, [] => some h
  | n+1, cf, pol, h, to, i, v :: r =>
    match getSub h to, h[v]? with
    | some (_, _, td, ta), some vn =>
      match ta[i]? with
      | none => appendCpy cf h to (v :: r)
      | some o =>
        let store : Option Heap :=
          match cpy cf h v (some to) (idxName i) with
          | none => none
          | some (h1, c) => mergeIdxH n cf pol (setBody h1 to (.sub td (ta.set i c))) to (i + 1) r
        match h[o]? with
        | none => none
        | some on =>
          if unsettled on vn then none
          else if isSubNode on && isSubNode vn then
            match mergeH n cf pol h o v with
            | none => none
            | some h1 => mergeIdxH n cf pol h1 to (i + 1) r
          else store
    | _, _ => none
termination_by structural n => n
end

/-! ### the tree NewFrom / Merge build from a source value (merge.go normalize*, normalizeValue for embedded configs) -/

/-- a source value: plain data, with configs that exist already embedded at any position -/
inductive Src where
  | nil
  | prim (kind val : String)           -- bool, int, uint, float, string; dyn: a string holding an expression under VarExp
  | reg (id : Id)                      -- an existing config (a *Config or Config value inside the source): it is copied
  | arr (xs : List Src)
  | map (es : List (String × Src))     -- keys: single path segments, each once
  deriving Repr, Inhabited

mutual
/-- the node for a source value under the context it is created for; `cf`: fuel of the copies -/
def buildH (cf : Nat) : Heap → Src → Option Id → String → Option (Heap × Id)
  | h, .nil, p, f => some (h ++ [nilNode p f], h.length)
  | h, .prim k v, p, f => some (h ++ [⟨p, f, .prim k v⟩], h.length)
  | h, .reg id, p, f => cpy cf h id p f
  | h, .arr xs, p, f =>
    let me := h.length
    match buildListH cf (h ++ [⟨p, f, .sub [] []⟩]) me 0 xs with
    | none => none
    | some (h1, ids) => some (setBody h1 me (.sub [] ids), me)
  | h, .map es, p, f =>
    let me := h.length
    match buildEntriesH cf (h ++ [⟨p, f, .sub [] []⟩]) me es with
    | none => none
    | some (h1, d) => some (setBody h1 me (.sub d []), me)
/-- the elements of a list source, each under the index it has -/
def buildListH (cf : Nat) : Heap → Id → Nat → List Src → Option (Heap × List Id)
  | h, _, _, [] => some (h, [])
  | h, me, i, x :: r =>
    match buildH cf h x (some me) (idxName i) with
    | none => none
    | some (h1, c) =>
      match buildListH cf h1 me (i + 1) r with
      | none => none
      | some (h2, cs) => some (h2, c :: cs)
/-- the entries of a map source, each under its key -/
def buildEntriesH (cf : Nat) : Heap → Id → List (String × Src) → Option (Heap × List (String × Id))
  | h, _, [] => some (h, [])
  | h, me, (k, x) :: r =>
    match buildH cf h x (some me) k with
    | none => none
    | some (h1, c) =>
      match buildEntriesH cf h1 me r with
      | none => none
      | some (h2, d) => some (h2, (k, c) :: d)
end

/-- Merge(src): a config given as the source is merged as it is, any other value is normalized first -/
def mergeSrcH (n cf : Nat) (pol : ArrPol) (h : Heap) (to : Id) : Src → Option Heap
  | .reg frm => mergeH n cf pol h to frm
  | s =>
    match buildH cf h s none "" with
    | some (h1, frm) => mergeH n cf pol h1 to frm
    | none => none

/-- NewFrom(src): `New()` followed by Merge -/
def newFromH (n cf : Nat) (pol : ArrPol) (h : Heap) (src : Src) : Option (Heap × Id) :=
  match mergeSrcH n cf pol (h ++ [⟨none, "", .sub [] []⟩]) h.length src with
  | some h' => some (h', h.length)
  | none => none

/-! ### Remove through a whole path (path.go cfgPath.Remove) -/

/-- one step down: the entry a segment names -/
def stepSeg (h : Heap) (id : Id) : Seg → Option Id
  | .name k => childNamed h id k
  | .idx i => childAt h id i

/-- the walk to the node the last segment is removed from: `some none` - an intermediate setting is missing (Remove
returns false, nothing changes); `none` - the walk meets an unevaluated expression or a null (not described) -/
def walkRemove (h : Heap) : Id → List Seg → Option (Option Id)
  | id, [] =>
    (match h[id]? with
     | some n => if isDynNode n || isNilBody n then none else some (some id)
     | none => none)
  | id, s :: r =>
    (match h[id]? with
     | some n =>
       if isDynNode n then none
       else match stepSeg h id s with
         | some c => walkRemove h c r
         | none => some none
     | none => none)

/-- Remove(name, idx): the last segment is deleted from the node the others lead to; a node that is no object has nothing
to remove.  `none`: not described. -/
def removePathH (h : Heap) (root : Id) (segs : List Seg) : Option Heap :=
  match segs.reverse with
  | [] => none
  | last :: revInit =>
    match walkRemove h root revInit.reverse with
    | none => none
    | some none => some h
    | some (some cont) =>
      if (getSub h cont).isNone then some h
      else match last with
        | .idx i => some (delAt h cont i)
        | .name k => some (dictDel h cont k)

end Ucfg.Forest
