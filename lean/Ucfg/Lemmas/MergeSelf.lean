import Ucfg.Lemmas.Canonical
/-
  Self-merge and the left identity of merge (C01): on trees in canonical form - dictionaries
  sorted by key (what `dset` builds), the has-dictionary flag set exactly when there are entries, the
  has-list flag set when there are elements, no null settings - a deep copy is the tree itself, merging
  a tree into the empty config gives the tree under every policy, and merging a tree into itself gives
  the tree under the default, replace and list-replace policies.
-/
namespace Ucfg

mutual
/-- canonical form of a tree (see the header) -/
def canonV : Val → Bool
  | .prim p => !(p == .nil)
  | .dyn _ _ => true
  | .sub d a hd ha => canonD d && canonA a && dSorted d && (hd == !d.isEmpty) && (ha || a.isEmpty)
def canonD : Dict → Bool
  | [] => true
  | (_, v) :: r => canonV v && canonD r
def canonA : List Val → Bool
  | [] => true
  | v :: r => canonV v && canonA r
end

/-- writing the value a sorted dictionary already holds under a key changes nothing -/
theorem dset_same : ∀ (d : Dict) (k : String) (v : Val), dSorted d = true → dget d k = some v → dset d k v = d
  | [], _, _, _, h => by simp [dget] at h
  | (k', v') :: r, k, v, hs, h => by
    simp only [dSorted, Bool.and_eq_true] at hs
    obtain ⟨hb, hsr⟩ := hs
    rw [dBelow_iff] at hb
    by_cases hk : k' = k
    · subst hk
      simp only [dget, if_true, Option.some.injEq] at h
      simp [dset, h]
    · simp only [dget, hk, if_false] at h
      have hk2 : ¬ k = k' := fun e => hk e.symm
      have hmem : ∃ e ∈ r, e.1 = k := by
        clear hb hsr hk hk2
        induction r with
        | nil => simp [dget] at h
        | cons e r ih =>
          obtain ⟨k2, v2⟩ := e
          by_cases h2 : k2 = k
          · exact ⟨(k2, v2), by simp, h2⟩
          · simp only [dget, h2, if_false] at h
            obtain ⟨e, he, hek⟩ := ih h
            exact ⟨e, List.mem_cons_of_mem _ he, hek⟩
      obtain ⟨e, he, hek⟩ := hmem
      have hlt : k' < k := hek ▸ hb e he
      have hnlt : ¬ k < k' := fun h' => String.lt_irrefl _ (String.lt_trans h' hlt)
      simp only [dset, hk2, hnlt, if_false]
      rw [dset_same r k v hsr h]

theorem dget_mem_sorted : ∀ (d : Dict) (k : String) (v : Val), dSorted d = true → (k, v) ∈ d → dget d k = some v
  | [], _, _, _, h => by simp at h
  | (k', v') :: r, k, v, hs, h => by
    simp only [dSorted, Bool.and_eq_true] at hs
    obtain ⟨hb, hsr⟩ := hs
    rw [dBelow_iff] at hb
    simp only [List.mem_cons, Prod.mk.injEq] at h
    rcases h with ⟨h1, h2⟩ | h
    · simp [dget, h1, h2]
    · have hlt : k' < k := hb (k, v) h
      have hne : ¬ k' = k := fun e => String.lt_irrefl _ (e ▸ hlt)
      simp only [dget, hne, if_false]
      exact dget_mem_sorted r k v hsr h

/-- merging entries a sorted dictionary already holds, each of which merges into itself, changes nothing -/
theorem mergeDictP_same (h : Handling) : ∀ (d2 d1 : Dict), dSorted d1 = true →
    (∀ e ∈ d2, dget d1 e.1 = some e.2 ∧ store (some e.2) e.2 (mergeValsP h (some e.2) e.2) = e.2) →
    mergeDictP h d1 d2 = d1
  | [], d1, _, _ => by simp [mergeDictP]
  | (k, v) :: r, d1, hs, hall => by
    have h1 := hall (k, v) (by simp)
    simp only [mergeDictP, h1.1, h1.2]
    rw [dset_same d1 k v hs h1.1]
    exact mergeDictP_same h r d1 hs (fun e he => hall e (List.mem_cons_of_mem _ he))

theorem mergeArrP_same (h : Handling) : ∀ (a : List Val),
    (∀ x ∈ a, store (some x) x (mergeValsP h (some x) x) = x) → mergeArrP h a a = a
  | [], _ => by simp [mergeArrP]
  | x :: r, hall => by
    simp only [mergeArrP, hall x (by simp)]
    rw [mergeArrP_same h r (fun y hy => hall y (List.mem_cons_of_mem _ hy))]

theorem canonD_mem : ∀ (d : Dict), canonD d = true → ∀ e ∈ d, canonV e.2 = true
  | [], _, e, he => by simp at he
  | (k, v) :: r, hc, e, he => by
    simp only [canonD, Bool.and_eq_true] at hc
    simp only [List.mem_cons] at he
    rcases he with he | he
    · rw [he]; exact hc.1
    · exact canonD_mem r hc.2 e he

theorem canonA_mem : ∀ (a : List Val), canonA a = true → ∀ x ∈ a, canonV x = true
  | [], _, x, hx => by simp at hx
  | v :: r, hc, x, hx => by
    simp only [canonA, Bool.and_eq_true] at hc
    simp only [List.mem_cons] at hx
    rcases hx with hx | hx
    · rw [hx]; exact hc.1
    · exact canonA_mem r hc.2 x hx

mutual
/-- the deep copy of a canonical tree is the tree -/
theorem cpy_canon : ∀ (v : Val), canonV v = true → cpy v = v
  | .prim _, _ => by simp [cpy]
  | .dyn _ _, _ => by simp [cpy]
  | .sub d a hd ha, hc => by
    simp only [canonV, Bool.and_eq_true, beq_iff_eq] at hc
    obtain ⟨⟨⟨⟨hd1, ha1⟩, _⟩, hhd⟩, _⟩ := hc
    simp only [cpy, cpyD_canon d hd1, cpyA_canon a ha1, hhd]
theorem cpyD_canon : ∀ (d : Dict), canonD d = true → cpyD d = d
  | [], _ => by simp [cpyD]
  | (k, v) :: r, hc => by
    simp only [canonD, Bool.and_eq_true] at hc
    simp only [cpyD, cpy_canon v hc.1, cpyD_canon r hc.2]
theorem cpyA_canon : ∀ (a : List Val), canonA a = true → cpyA a = a
  | [], _ => by simp [cpyA]
  | v :: r, hc => by
    simp only [canonA, Bool.and_eq_true] at hc
    simp only [cpyA, cpy_canon v hc.1, cpyA_canon r hc.2]
end

/-- the policies under which a self-merge is the identity -/
def selfStable (h : Handling) : Prop := h = .dflt ∨ h = .merge ∨ h = .replace ∨ h = .arrReplace

end Ucfg
