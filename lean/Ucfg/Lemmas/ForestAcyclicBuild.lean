import Ucfg.Lemmas.ForestAcyclicMerge
import Ucfg.Lemmas.ForestBuild
/-!
  What `buildH` makes of a source value is a tree of new nodes (`Up`), so NewFrom and Merge of values keep `MInv` too.
-/
namespace Ucfg.Forest

theorem up_of_ext {h h' : Heap} (e : Ext h h') (u : Up h.length h') (base : Nat) (ub : Up base h) : Up base h' := by
  obtain ⟨t, rfl⟩ := e
  exact up_ext t ub u

theorem up_trans_ext {h h1 h2 : Heap} (e1 : Ext h h1) (e2 : Ext h1 h2) (u1 : Up h.length h1) (u2 : Up h1.length h2) :
    Up h.length h2 := by
  obtain ⟨t1, rfl⟩ := e1
  obtain ⟨t2, rfl⟩ := e2
  exact up_ext t2 u1 u2

theorem up_empty_ext (h : Heap) : Up h.length h := by
  intro a nd ha hn
  rw [List.getElem?_eq_none ha] at hn; cases hn

mutual
theorem buildH_up (cf : Nat) : ∀ (s : Src) (h : Heap) (p : Option Id) (f : String) (h' : Heap) (id : Id),
    buildH cf h s p f = some (h', id) → Up h.length h'
  | .nil, h, p, f, h', id, he => by
    simp only [buildH, Option.some.injEq, Prod.mk.injEq] at he
    obtain ⟨rfl, rfl⟩ := he
    exact up_append_leaf _ _ _ (up_empty_ext h) (by simp [nilNode, Body.children])
  | .prim k v, h, p, f, h', id, he => by
    simp only [buildH, Option.some.injEq, Prod.mk.injEq] at he
    obtain ⟨rfl, rfl⟩ := he
    exact up_append_leaf _ _ _ (up_empty_ext h) (by simp [Body.children])
  | .reg r, h, p, f, h', id, he => by
    simp only [buildH] at he
    exact cpy_up cf h r p f h' id he
  | .arr xs, h, p, f, h', id, he => by
    simp only [buildH] at he
    cases hl : buildListH cf (h ++ [⟨p, f, .sub [] []⟩]) h.length 0 xs with
    | none => rw [hl] at he; cases he
    | some r =>
      obtain ⟨h1, ids⟩ := r
      rw [hl] at he
      simp only [Option.some.injEq, Prod.mk.injEq] at he
      obtain ⟨rfl, rfl⟩ := he
      generalize hnw : (⟨p, f, .sub [] []⟩ : Node) = nw at *
      obtain ⟨u1, hids⟩ := buildListH_up cf xs (h ++ [nw]) h.length 0 h1 ids hl
      obtain ⟨e1, _, _, _⟩ := buildListH_ok cf xs (h ++ [nw]) h.length 0 h1 ids hl
      have u0 : Up h.length (h ++ [nw]) := up_append_leaf _ _ _ (up_empty_ext h) (by rw [← hnw]; rfl)
      have uA : Up h.length h1 := up_trans_ext ⟨[nw], rfl⟩ e1 u0 u1
      apply up_setBody _ _ uA
      intro x hx
      simp only [Body.children, List.map_nil, List.nil_append] at hx
      obtain ⟨a1, a2⟩ := hids x hx
      exact ⟨Nat.lt_of_lt_of_le (by simp) a1, a2⟩
  | .map es, h, p, f, h', id, he => by
    simp only [buildH] at he
    cases hl : buildEntriesH cf (h ++ [⟨p, f, .sub [] []⟩]) h.length es with
    | none => rw [hl] at he; cases he
    | some r =>
      obtain ⟨h1, d⟩ := r
      rw [hl] at he
      simp only [Option.some.injEq, Prod.mk.injEq] at he
      obtain ⟨rfl, rfl⟩ := he
      generalize hnw : (⟨p, f, .sub [] []⟩ : Node) = nw at *
      obtain ⟨u1, hids⟩ := buildEntriesH_up cf es (h ++ [nw]) h.length h1 d hl
      obtain ⟨e1, _, _, _⟩ := buildEntriesH_ok cf es (h ++ [nw]) h.length h1 d hl
      have u0 : Up h.length (h ++ [nw]) := up_append_leaf _ _ _ (up_empty_ext h) (by rw [← hnw]; rfl)
      have uA : Up h.length h1 := up_trans_ext ⟨[nw], rfl⟩ e1 u0 u1
      apply up_setBody _ _ uA
      intro x hx
      simp only [Body.children, List.append_nil, List.mem_map] at hx
      obtain ⟨kc, hkc, rfl⟩ := hx
      obtain ⟨a1, a2⟩ := hids kc hkc
      exact ⟨Nat.lt_of_lt_of_le (by simp) a1, a2⟩

theorem buildListH_up (cf : Nat) : ∀ (xs : List Src) (h : Heap) (me i : Nat) (h' : Heap) (ids : List Id),
    buildListH cf h me i xs = some (h', ids) → Up h.length h' ∧ ∀ c ∈ ids, h.length ≤ c ∧ c < h'.length
  | [], h, me, i, h', ids, he => by
    simp only [buildListH, Option.some.injEq, Prod.mk.injEq] at he
    obtain ⟨rfl, rfl⟩ := he
    exact ⟨up_empty_ext h, fun c hc => (by cases hc)⟩
  | x :: r, h, me, i, h', ids, he => by
    simp only [buildListH] at he
    cases hb : buildH cf h x (some me) (idxName i) with
    | none => rw [hb] at he; cases he
    | some r1 =>
      obtain ⟨h1, c⟩ := r1
      rw [hb] at he
      simp only at he
      cases hr : buildListH cf h1 me (i + 1) r with
      | none => rw [hr] at he; cases he
      | some r2 =>
        obtain ⟨h2, cs⟩ := r2
        rw [hr] at he
        simp only [Option.some.injEq, Prod.mk.injEq] at he
        obtain ⟨rfl, rfl⟩ := he
        have u1 := buildH_up cf x h (some me) (idxName i) h1 c hb
        have ok1 := buildH_ok cf x h (some me) (idxName i) h1 c hb
        obtain ⟨u2, hids⟩ := buildListH_up cf r h1 me (i + 1) h2 cs hr
        obtain ⟨e2, _, _, _⟩ := buildListH_ok cf r h1 me (i + 1) h2 cs hr
        refine ⟨up_trans_ext ok1.ext e2 u1 u2, ?_⟩
        intro c' hc'
        rcases List.mem_cons.mp hc' with e | e
        · subst e
          obtain ⟨b, hb1⟩ := ok1.ctx
          exact ⟨by rw [ok1.id_eq]; exact Nat.le_refl _, Nat.lt_of_lt_of_le (lt_of_getElem?_some hb1) e2.len⟩
        · obtain ⟨a1, a2⟩ := hids c' e
          exact ⟨Nat.le_trans ok1.ext.len a1, a2⟩

theorem buildEntriesH_up (cf : Nat) : ∀ (es : List (String × Src)) (h : Heap) (me : Nat) (h' : Heap) (d : List (String × Id)),
    buildEntriesH cf h me es = some (h', d) → Up h.length h' ∧ ∀ kc ∈ d, h.length ≤ kc.2 ∧ kc.2 < h'.length
  | [], h, me, h', d, he => by
    simp only [buildEntriesH, Option.some.injEq, Prod.mk.injEq] at he
    obtain ⟨rfl, rfl⟩ := he
    exact ⟨up_empty_ext h, fun kc hkc => (by cases hkc)⟩
  | (k, x) :: r, h, me, h', d, he => by
    simp only [buildEntriesH] at he
    cases hb : buildH cf h x (some me) k with
    | none => rw [hb] at he; cases he
    | some r1 =>
      obtain ⟨h1, c⟩ := r1
      rw [hb] at he
      simp only at he
      cases hr : buildEntriesH cf h1 me r with
      | none => rw [hr] at he; cases he
      | some r2 =>
        obtain ⟨h2, d2⟩ := r2
        rw [hr] at he
        simp only [Option.some.injEq, Prod.mk.injEq] at he
        obtain ⟨rfl, rfl⟩ := he
        have u1 := buildH_up cf x h (some me) k h1 c hb
        have ok1 := buildH_ok cf x h (some me) k h1 c hb
        obtain ⟨u2, hids⟩ := buildEntriesH_up cf r h1 me h2 d2 hr
        obtain ⟨e2, _, _, _⟩ := buildEntriesH_ok cf r h1 me h2 d2 hr
        refine ⟨up_trans_ext ok1.ext e2 u1 u2, ?_⟩
        intro kc hkc
        rcases List.mem_cons.mp hkc with e | e
        · subst e
          obtain ⟨b, hb1⟩ := ok1.ctx
          exact ⟨by simp only; rw [ok1.id_eq]; exact Nat.le_refl _, Nat.lt_of_lt_of_le (lt_of_getElem?_some hb1) e2.len⟩
        · obtain ⟨a1, a2⟩ := hids kc e
          exact ⟨Nat.le_trans ok1.ext.len a1, a2⟩
end

/-- building a value keeps the merge invariant: only new nodes, each listing later ones -/
theorem minv_build {base : Nat} {h0 h h1 : Heap} {cf : Nat} {s : Src} {p : Option Id} {f : String} {id : Id}
    (inv : MInv base h0 h) (hb : buildH cf h s p f = some (h1, id)) : MInv base h0 h1 := by
  have u := buildH_up cf s h p f h1 id hb
  have ok := buildH_ok cf s h p f h1 id hb
  refine ⟨up_of_ext ok.ext u base inv.up, ?_, Nat.le_trans inv.len ok.ext.len⟩
  intro a ha x hx
  have hlt : a < h.length := Nat.lt_of_lt_of_le ha inv.len
  rw [kids_eq_of_node_eq (ok.ext.old hlt)] at hx
  rcases inv.olds a ha x hx with e | ⟨e1, e2⟩
  · exact .inl e
  · exact .inr ⟨e1, Nat.lt_of_lt_of_le e2 ok.ext.len⟩

end Ucfg.Forest
