import Ucfg.Model.Normalize
import Ucfg.Model.Reify
import Ucfg.Lemmas.DictSorted
/-
  The canonical generic view of plain Go data: what NewFrom followed by Unpack into interface{} must return.
  `expect` is written on the data alone (positive integers are unsigned, durations and regexps their text, map entries
  sorted by key); the lemmas relate it to normalizeValue and reify.
-/
namespace Ucfg
open Outcome

/-- sorted insertion into a generic map (the mirror of `dset`) -/
def dataSet : List (String × Data) → String → Data → List (String × Data)
  | [], n, x => [(n, x)]
  | (k, v) :: r, n, x =>
    if n = k then (k, x) :: r
    else if n < k then (n, x) :: (k, v) :: r
    else (k, v) :: dataSet r n x

mutual
/-- the generic view the statement asks for -/
def expect : GoData → Data
  | .nil => .nil
  | .bool b => .bool b
  | .int i => if i > 0 then .uint i.toNat else .int i
  | .uint n => .uint n
  | .float f => .float f
  | .str s => .str s
  | .dur t => .str t
  | .regex t => .str t
  | .list l => .arr (expectL l)
  | .map m => .map (expectM [] m)
  | _ => .nil
def expectL : List GoData → List Data
  | [] => []
  | x :: r => expect x :: expectL r
def expectM (acc : List (String × Data)) : List (String × GoData) → List (String × Data)
  | [] => acc
  | (k, v) :: r => expectM (dataSet acc k (expect v)) r
end

mutual
/-- plain data: scalars, non-empty lists, non-empty string-keyed maps whose keys are single path segments, all different -/
def plainData (o : Opts) : GoData → Bool
  | .nil | .bool _ | .int _ | .uint _ | .float _ | .str _ | .dur _ | .regex _ => true
  | .list l => !l.isEmpty && plainL o l
  | .map m => !m.isEmpty && plainM o [] m
  | _ => false
def plainL (o : Opts) : List GoData → Bool
  | [] => true
  | x :: r => plainData o x && plainL o r
def plainM (o : Opts) (seen : List String) : List (String × GoData) → Bool
  | [] => true
  | (k, v) :: r =>
    decide (parsePathOpts k o = [.named k]) && !seen.contains k && plainData o v && plainM o (k :: seen) r
end

/-- reify of a dictionary after one more sorted insertion -/
theorem reifyD_dset : ∀ (d : Dict) (acc : List (String × Data)) (k : String) (v : Val) (x : Data),
    reifyD d = .ok acc → reifyP v = .ok x → reifyD (dset d k v) = .ok (dataSet acc k x)
  | [], acc, k, v, x, hd, hv => by
    simp only [reifyD, Outcome.ok.injEq] at hd
    subst hd
    simp [dset, dataSet, reifyD, hv]
  | (k', v') :: r, acc, k, v, x, hd, hv => by
    simp only [reifyD] at hd
    cases h1 : reifyP v' with
    | ok x' =>
      rw [h1] at hd
      simp only [Outcome.bind_ok] at hd
      cases h2 : reifyD r with
      | ok rest =>
        rw [h2] at hd
        simp only [Outcome.bind_ok, Outcome.ok.injEq] at hd
        subst hd
        unfold dset dataSet
        by_cases e1 : k = k'
        · simp [e1, reifyD, hv, h2]
        · simp only [e1, if_false]
          by_cases e2 : k < k'
          · simp [e2, reifyD, hv, h1, h2]
          · simp only [e2, if_false]
            have ih := reifyD_dset r rest k v x h2 hv
            simp [reifyD, h1, ih]
      | err e => rw [h2] at hd; simp at hd
      | panic s => rw [h2] at hd; simp at hd
      | fuel => rw [h2] at hd; simp at hd
    | err e => rw [h1] at hd; simp at hd
    | panic s => rw [h1] at hd; simp at hd
    | fuel => rw [h1] at hd; simp at hd

theorem setField_new (o : Opts) (d : Dict) (a : List Val) (hd ha : Bool) (k : String) (v : Val)
    (hk : parsePathOpts k o = [.named k]) (hnew : dget d k = none) :
    setField o (.sub d a hd ha) k v = .ok (.sub (dset d k v) a true ha) := by
  unfold setField
  rw [hk]
  simp [pathGet, fieldGet, tcPlain, Val.dict, hnew, Val.isNilOpt, pathSet, fieldSet]

theorem dset_ne_nil (d : Dict) (k : String) (v : Val) : dset d k v ≠ [] := by
  cases d with
  | nil => simp [dset]
  | cons e r =>
    obtain ⟨k', v'⟩ := e
    unfold dset
    split
    · simp
    · split <;> simp

mutual
theorem norm_expect (o : Opts) (hv : o.varexp = false) : ∀ (x : GoData), plainData o x = true →
    ∃ v, normValue o x = .ok v ∧ reifyP v = .ok (expect x)
  | .nil, _ => ⟨Val.nilV, by unfold normValue; rfl, by simp [Val.nilV, reifyP, expect, Prim.toData]⟩
  | .bool b, _ => ⟨.prim (.bool b), by unfold normValue; rfl, by simp [reifyP, expect, Prim.toData]⟩
  | .int i, _ => by
    refine ⟨if i > 0 then .prim (.uint i.toNat) else .prim (.int i), by unfold normValue; rfl, ?_⟩
    by_cases hi : i > 0 <;> simp [hi, reifyP, expect, Prim.toData]
  | .uint n, _ => ⟨.prim (.uint n), by unfold normValue; rfl, by simp [reifyP, expect, Prim.toData]⟩
  | .float f, _ => ⟨.prim (.float f), by unfold normValue; rfl, by simp [reifyP, expect, Prim.toData]⟩
  | .str s, _ => ⟨.prim (.str s), by unfold normValue; simp [normalizeString, hv], by simp [reifyP, expect, Prim.toData]⟩
  | .dur t, _ => ⟨.prim (.str t), by unfold normValue; rfl, by simp [reifyP, expect, Prim.toData]⟩
  | .regex t, _ => ⟨.prim (.str t), by unfold normValue; rfl, by simp [reifyP, expect, Prim.toData]⟩
  | .list l, h => by
    simp only [plainData, Bool.and_eq_true, Bool.not_eq_true', List.isEmpty_eq_false_iff] at h
    obtain ⟨a, hn, hr⟩ := normL_expect o hv l h.2
    refine ⟨.sub [] a false true, by unfold normValue; simp [hn], ?_⟩
    cases a with
    | nil =>
      cases l with
      | nil => exact absurd rfl h.1
      | cons x r => simp [reifyA, expectL] at hr
    | cons y b =>
      unfold reifyP
      simp only [hr, Outcome.bind_ok, expect]
  | .map m, h => by
    simp only [plainData, Bool.and_eq_true, Bool.not_eq_true', List.isEmpty_eq_false_iff] at h
    obtain ⟨d', hd', hn, hr, _, hne⟩ := normM_expect o hv m [] [] [] false h.2 (by simp [reifyD]) rfl (by simp [dget])
    refine ⟨.sub d' [] hd' false, by unfold normValue; exact hn, ?_⟩
    cases d' with
    | nil => exact absurd rfl (hne h.1)
    | cons e r =>
      obtain ⟨k, v⟩ := e
      unfold reifyP
      simp only [hr, Outcome.bind_ok, expect]
  | .strct _, h => by simp [plainData] at h
  | .cfg _, h => by simp [plainData] at h
  | .unsupported, h => by simp [plainData] at h
  | .badKeyMap, h => by simp [plainData] at h
theorem normL_expect (o : Opts) (hv : o.varexp = false) : ∀ (l : List GoData), plainL o l = true →
    ∃ a, normList o l = .ok a ∧ reifyA a = .ok (expectL l)
  | [], _ => ⟨[], by unfold normList; rfl, by simp [reifyA, expectL]⟩
  | x :: r, h => by
    simp only [plainL, Bool.and_eq_true] at h
    obtain ⟨v, hn, hr⟩ := norm_expect o hv x h.1
    obtain ⟨a, hna, hra⟩ := normL_expect o hv r h.2
    refine ⟨v :: a, by unfold normList; simp [hn, hna], ?_⟩
    simp [reifyA, hr, hra, expectL]
theorem normM_expect (o : Opts) (hv : o.varexp = false) : ∀ (m : List (String × GoData)) (seen : List String) (d : Dict)
    (acc : List (String × Data)) (hd : Bool), plainM o seen m = true → reifyD d = .ok acc → dSorted d = true →
    (∀ k, dget d k ≠ none → k ∈ seen) →
    ∃ d' hd', normMapInto o (.sub d [] hd false) m = .ok (.sub d' [] hd' false) ∧ reifyD d' = .ok (expectM acc m) ∧
      dSorted d' = true ∧ (m ≠ [] → d' ≠ [])
  | [], seen, d, acc, hd, _, hr, hs, _ => ⟨d, hd, by unfold normMapInto; rfl, by simpa [expectM] using hr, hs, fun h => absurd rfl h⟩
  | (k, x) :: r, seen, d, acc, hd, h, hr, hs, hseen => by
    simp only [plainM, Bool.and_eq_true, decide_eq_true_eq, Bool.not_eq_true'] at h
    obtain ⟨⟨⟨hk, hnew⟩, hx⟩, hrest⟩ := h
    obtain ⟨v, hn, hrv⟩ := norm_expect o hv x hx
    have hnone : dget d k = none := by
      cases hg : dget d k with
      | none => rfl
      | some w =>
        have := hseen k (by rw [hg]; simp)
        simp [List.contains_iff_mem] at hnew
        exact absurd this hnew
    have hseen' : ∀ k', dget (dset d k v) k' ≠ none → k' ∈ k :: seen := by
      intro k' hk'
      by_cases e : k = k'
      · simp [e]
      · rw [dget_dset_other _ _ _ _ e] at hk'
        exact List.mem_cons_of_mem _ (hseen k' hk')
    obtain ⟨d', hd', hn', hr', hs', _⟩ := normM_expect o hv r (k :: seen) (dset d k v) (dataSet acc k (expect x)) true hrest
      (reifyD_dset d acc k v (expect x) hr hrv) (dset_sorted d k v hs) hseen'
    refine ⟨d', hd', ?_, by simpa [expectM] using hr', hs', ?_⟩
    · unfold normMapInto
      simp only [hn, Outcome.bind_ok, setField_new o d [] hd false k v hk hnone]
      exact hn'
    · intro _
      -- at least the entry just inserted is there
      intro hnil
      subst hnil
      have : reifyD ([] : Dict) = .ok (expectM (dataSet acc k (expect x)) r) := hr'
      simp only [reifyD, Outcome.ok.injEq] at this
      -- expectM never shrinks a non-empty accumulator
      have hgrow : ∀ (m' : List (String × GoData)) (acc' : List (String × Data)), acc' ≠ [] → expectM acc' m' ≠ [] := by
        intro m'
        induction m' with
        | nil => intro acc' h; simpa [expectM] using h
        | cons e r' ih =>
          intro acc' _
          obtain ⟨k2, x2⟩ := e
          simp only [expectM]
          apply ih
          cases acc' with
          | nil => simp [dataSet]
          | cons e2 r2 =>
            obtain ⟨k3, v3⟩ := e2
            unfold dataSet
            split
            · simp
            · split <;> simp
      have hne : dataSet acc k (expect x) ≠ [] := by
        cases acc with
        | nil => simp [dataSet]
        | cons e2 r2 =>
          obtain ⟨k3, v3⟩ := e2
          unfold dataSet
          split
          · simp
          · split <;> simp
      exact hgrow r _ hne this.symm
end

/-! ### the merge into the empty config (NewFrom) keeps the view -/

mutual
theorem reifyP_cpy : ∀ (v : Val), reifyP (cpy v) = reifyP v
  | .prim p => by simp [cpy]
  | .dyn i e => by simp [cpy]
  | .sub d a hd ha => by
    cases d with
    | nil =>
      cases a with
      | nil => simp [cpy, cpyD, cpyA, reifyP]
      | cons x r =>
        have := reifyA_cpy (x :: r)
        simp only [cpyA] at this
        simp only [cpy, cpyD, cpyA, reifyP, this]
    | cons e r =>
      obtain ⟨k, v⟩ := e
      have hD := reifyD_cpy ((k, v) :: r)
      simp only [cpyD] at hD
      cases a with
      | nil => simp only [cpy, cpyD, cpyA, reifyP, hD]
      | cons x r' =>
        have hI := reifyIdx_cpy 0 (x :: r')
        simp only [cpyA] at hI
        simp only [cpy, cpyD, cpyA, reifyP, hD, hI]
theorem reifyD_cpy : ∀ (d : Dict), reifyD (cpyD d) = reifyD d
  | [] => by simp [cpyD]
  | (k, v) :: r => by simp only [cpyD, reifyD, reifyP_cpy v, reifyD_cpy r]
theorem reifyA_cpy : ∀ (a : List Val), reifyA (cpyA a) = reifyA a
  | [] => by simp [cpyA]
  | v :: r => by simp only [cpyA, reifyA, reifyP_cpy v, reifyA_cpy r]
theorem reifyIdx_cpy : ∀ (i : Nat) (a : List Val), reifyIdx i (cpyA a) = reifyIdx i a
  | _, [] => by simp [cpyA]
  | i, v :: r => by simp only [cpyA, reifyIdx, reifyP_cpy v, reifyIdx_cpy (i + 1) r]
end

/-- inserting a key greater than every key there appends it -/
theorem dset_append_max : ∀ (d : Dict) (k : String) (v : Val), (∀ e ∈ d, e.1 < k) → dset d k v = d ++ [(k, v)]
  | [], k, v, _ => by simp [dset]
  | (k', v') :: r, k, v, h => by
    have hlt : k' < k := h (k', v') (by simp)
    have h1 : ¬ k = k' := fun e => by rw [e] at hlt; exact String.lt_irrefl _ hlt
    have h2 : ¬ k < k' := fun e => String.lt_asymm hlt e
    unfold dset
    simp only [h1, h2, if_false, List.cons_append]
    rw [dset_append_max r k v (fun e he => h e (List.mem_cons_of_mem _ he))]

theorem dget_none_of_all_lt : ∀ (d : Dict) (k : String), (∀ e ∈ d, e.1 < k) → dget d k = none
  | [], _, _ => rfl
  | (k', v') :: r, k, h => by
    have hlt : k' < k := h (k', v') (by simp)
    have h1 : ¬ k' = k := fun e => by rw [e] at hlt; exact String.lt_irrefl _ hlt
    simp only [dget, h1, if_false]
    exact dget_none_of_all_lt r k (fun e he => h e (List.mem_cons_of_mem _ he))

/-- merging a sorted dictionary into one whose keys are all smaller appends deep copies, in order -/
theorem mergeDictP_sorted (h : Handling) : ∀ (D acc : Dict), dSorted D = true → (∀ e ∈ acc, ∀ e' ∈ D, e.1 < e'.1) →
    mergeDictP h acc D = acc ++ cpyD D
  | [], acc, _, _ => by simp [mergeDictP, cpyD]
  | (k, v) :: r, acc, hs, hlt => by
    simp only [dSorted, Bool.and_eq_true] at hs
    obtain ⟨hb, hsr⟩ := hs
    rw [dBelow_iff] at hb
    have hall : ∀ e ∈ acc, e.1 < k := fun e he => hlt e he (k, v) (by simp)
    have hnone : dget acc k = none := dget_none_of_all_lt acc k hall
    simp only [mergeDictP, hnone]
    have hst : store none v (mergeValsP h none v) = cpy v := by
      unfold mergeValsP
      simp [store, inPlace]
    rw [hst, dset_append_max acc k (cpy v) hall]
    rw [mergeDictP_sorted h r (acc ++ [(k, cpy v)]) hsr (by
      intro e he e' he'
      simp only [List.mem_append, List.mem_cons, List.not_mem_nil, or_false] at he
      rcases he with he | he
      · exact hlt e he e' (List.mem_cons_of_mem _ he')
      · rw [he]; exact hb e' he')]
    simp [cpyD]

end Ucfg
