import Ucfg.Lemmas.ForestSet
import Ucfg.Lemmas.ForestMerge
/-!
  Reachability along stored children, and what adding one entry - possibly below a chain of new nodes - does to it:
  no config comes to be stored below itself.  (Props/C07 instantiates this with SetChild.)
-/
namespace Ucfg.Forest

def kids (h : Heap) (a : Id) : List Id :=
  match h[a]? with
  | some nd => nd.body.children
  | none => []

/-- `b` is `a` or stored somewhere below it -/
inductive Reach (h : Heap) : Id → Id → Prop where
  | refl (a : Id) : Reach h a a
  | step {a x b : Id} : x ∈ kids h a → Reach h x b → Reach h a b

theorem Reach.trans {h : Heap} {a b c : Id} (r1 : Reach h a b) (r2 : Reach h b c) : Reach h a c := by
  induction r1 with
  | refl => exact r2
  | step hx _ ih => exact .step hx (ih r2)

/-- no config is stored below itself -/
def NoCycle (h : Heap) : Prop := ∀ a x, x ∈ kids h a → ¬ Reach h x a

/-- the entries of every node are nodes of the heap -/
def KidsClosed (h : Heap) : Prop := ∀ a x, x ∈ kids h a → x < h.length

theorem reach_old_stays {h : Heap} (kc : KidsClosed h) {a b : Id} (r : Reach h a b) (ha : a < h.length) : b < h.length := by
  induction r with
  | refl => exact ha
  | step hx _ ih => exact ih (kc _ _ hx)

/-- what a write through a path does to the entries: below `t` a chain of NEW nodes may hang, ending in `child`; every
other old node lists what it listed, new nodes list newer nodes or `child` -/
structure Grows (h h' : Heap) (t child : Id) : Prop where
  old : ∀ a, a < h.length → a ≠ t → kids h' a = kids h a
  at_t : ∀ x, x ∈ kids h' t → x ∈ kids h t ∨ h.length ≤ x ∨ x = child
  new : ∀ a, h.length ≤ a → ∀ x, x ∈ kids h' a → a < x ∨ x = child

variable {h h' : Heap} {t child : Id}

/-- from an old node that does not hold `t`, nothing new is reached -/
theorem reach_from_old (g : Grows h h' t child) (kc : KidsClosed h) {a b : Id} (r : Reach h' a b) :
    a < h.length → ¬ Reach h a t → Reach h a b := by
  induction r with
  | refl a => intro _ _; exact .refl a
  | @step a x b hx _ ih =>
    intro ha hnt
    have hat : a ≠ t := fun e => hnt (e ▸ .refl a)
    rw [g.old a ha hat] at hx
    exact .step hx (ih (kc a x hx) (fun hr => hnt (.step hx hr)))

/-- from a new node one reaches newer nodes, or leaves through `child` -/
theorem reach_from_new (g : Grows h h' t child) {a b : Id} (r : Reach h' a b) :
    h.length ≤ a → (a ≤ b ∧ h.length ≤ b) ∨ Reach h' child b := by
  induction r with
  | refl a => intro ha; exact .inl ⟨Nat.le_refl _, ha⟩
  | @step a x b hx hr ih =>
    intro ha
    rcases g.new a ha x hx with hlt | e
    · rcases ih (Nat.le_trans ha (Nat.le_of_lt hlt)) with ⟨h1, h2⟩ | r2
      · exact .inl ⟨Nat.le_trans (Nat.le_of_lt hlt) h1, h2⟩
      · exact .inr r2
    · subst e; exact .inr hr

/-- between old nodes: what is reached was reached before, or the way leads through `t` and out through `child` -/
theorem reach_split_old (g : Grows h h' t child) (kc : KidsClosed h) {u b : Id} (r : Reach h' u b) :
    u < h.length → b < h.length → Reach h u b ∨ (Reach h u t ∧ Reach h' child b) := by
  induction r with
  | refl a => intro _ _; exact .inl (.refl a)
  | @step u y b hy hr ih =>
    intro hu hb
    by_cases hut : u = t
    · subst hut
      rcases g.at_t y hy with hold | hnew | e
      · rcases ih (kc _ _ hold) hb with l | ⟨_, r2⟩
        · exact .inl (.step hold l)
        · exact .inr ⟨.refl _, r2⟩
      · rcases reach_from_new g hr hnew with ⟨_, h2⟩ | r2
        · exact absurd hb (Nat.not_lt.mpr h2)
        · exact .inr ⟨.refl _, r2⟩
      · subst e; exact .inr ⟨.refl _, hr⟩
    · rw [g.old u hu hut] at hy
      rcases ih (kc _ _ hy) hb with l | ⟨r1, r2⟩
      · exact .inl (.step hy l)
      · exact .inr ⟨.step hy r1, r2⟩

/-- adding `child` below `t` - directly or below a chain of new nodes - keeps the heap free of cycles when `child` does
not hold `t` -/
theorem grows_noCycle (g : Grows h h' t child) (kc : KidsClosed h) (nc : NoCycle h)
    (ht : t < h.length) (hc : child < h.length) (hnot : ¬ Reach h child t) : NoCycle h' := by
  have back : ∀ b, Reach h' child b → Reach h child b := fun b r => reach_from_old g kc r hc hnot
  -- an old node that `child` reaches again leads to `t`: impossible
  have old_edge : ∀ a x, a < h.length → x ∈ kids h a → Reach h' x a → False := by
    intro a x ha hxa hr
    rcases reach_split_old g kc hr (kc a x hxa) ha with l | ⟨r1, r2⟩
    · exact nc a x hxa l
    · exact hnot ((back a r2).trans (.step hxa r1))
  intro a x hx hr
  by_cases ha : a < h.length
  · by_cases hat : a = t
    · subst hat
      rcases g.at_t x hx with hold | hnew | e
      · exact old_edge a x ha hold hr
      · rcases reach_from_new g hr hnew with ⟨_, h2⟩ | r2
        · exact absurd ha (Nat.not_lt.mpr h2)
        · exact hnot (back _ r2)
      · subst e; exact hnot (back _ hr)
    · rw [g.old a ha hat] at hx
      exact old_edge a x ha hx hr
  · -- a new node: it is reached again only through `child`, which reaches old nodes only
    have hge : h.length ≤ a := Nat.le_of_not_lt ha
    have through_child : Reach h' child a → False := fun r =>
      absurd (reach_old_stays kc (back a r) hc) ha
    rcases g.new a hge x hx with hlt | e
    · rcases reach_from_new g hr (Nat.le_trans hge (Nat.le_of_lt hlt)) with ⟨h1, _⟩ | r2
      · exact absurd hlt (Nat.not_lt.mpr h1)
      · exact through_child r2
    · subst e; exact through_child hr

/-! ### the entries after `padTo`, `setAt`, `storeSeg`, `setChain` -/

theorem kids_of_node {h : Heap} {a : Id} {nd : Node} (hn : h[a]? = some nd) : kids h a = nd.body.children := by
  unfold kids; rw [hn]

theorem kids_none {h : Heap} {a : Id} (ha : h.length ≤ a) : kids h a = [] := by
  unfold kids; rw [List.getElem?_eq_none ha]

theorem kids_eq_of_node_eq {h h' : Heap} {a : Id} (e : h'[a]? = h[a]?) : kids h' a = kids h a := by
  unfold kids; rw [e]

theorem kids_attachCtx (h : Heap) (child t : Id) (f : String) (a : Id) : kids (attachCtx h child t f) a = kids h a := by
  unfold attachCtx
  cases hn : h[child]? with
  | none => rfl
  | some n =>
    simp only
    split
    · by_cases e : a = child
      · subst e
        have hlt : a < h.length := by
          apply Nat.lt_of_not_le
          intro hle
          rw [List.getElem?_eq_none hle] at hn
          cases hn
        unfold kids
        rw [List.getElem?_set_self hlt, hn]
      · unfold kids
        rw [List.getElem?_set_ne (Ne.symm e)]
    · rfl

theorem attachCtx_length (h : Heap) (child t : Id) (f : String) : (attachCtx h child t f).length = h.length := by
  unfold attachCtx
  cases h[child]? with
  | none => rfl
  | some n => simp only; split <;> simp

/-- padding: the new nodes are nulls (they list nothing), `t` lists what it listed and new nodes -/
theorem padTo_kids : ∀ (n : Nat) (h0 : Heap) (t idx : Nat), t < h0.length →
    (∀ a, h0.length ≤ a → kids (padTo n h0 t idx) a = []) ∧
    (∀ x, x ∈ kids (padTo n h0 t idx) t → x ∈ kids h0 t ∨ (h0.length ≤ x ∧ x < (padTo n h0 t idx).length)) := by
  intro n
  induction n with
  | zero => intro h0 t idx _; exact ⟨fun a ha => kids_none ha, fun x hx => .inl hx⟩
  | succ n ih =>
    intro h0 t idx ht
    unfold padTo
    cases hg : getSub h0 t with
    | none => exact ⟨fun a ha => kids_none ha, fun x hx => .inl hx⟩
    | some q =>
      obtain ⟨p, f, d, a⟩ := q
      simp only
      split
      · generalize hnl : nilNode (some t) (idxName a.length) = nl
        generalize hh2 : setBody (h0 ++ [nl]) t (.sub d (a ++ [h0.length])) = h2
        have hl2 : h2.length = h0.length + 1 := by rw [← hh2]; simp [setBody_length]
        have ht2 : t < h2.length := by rw [hl2]; exact Nat.lt_succ_of_lt ht
        obtain ⟨i1, i2⟩ := ih h2 t idx ht2
        have hnode : (h0 ++ [nl])[t]? = some ⟨p, f, .sub d a⟩ := by
          rw [List.getElem?_append_left ht]; exact getSub_node hg
        have hk2 : kids h2 t = d.map (·.2) ++ (a ++ [h0.length]) := by
          rw [← hh2, kids_of_node (setBody_same _ t _ _ hnode)]; rfl
        have hk0 : kids h0 t = d.map (·.2) ++ a := by rw [kids_of_node (getSub_node hg)]; rfl
        refine ⟨?_, ?_⟩
        · intro a' ha'
          by_cases e : a' = h0.length
          · -- the null that was just appended: later padding leaves it alone
            have hne : a' ≠ t := fun e2 => absurd ht (by rw [← e2, e]; exact Nat.lt_irrefl _)
            have u := padTo_upd n h2 t idx
            rw [kids_eq_of_node_eq (u.2.1 a' (by rw [hl2, e]; exact Nat.lt_succ_self _) hne)]
            have : h2[a']? = some nl := by
              rw [← hh2, setBody_other _ _ _ _ hne, e]; simp
            rw [kids_of_node this, ← hnl]; rfl
          · exact i1 a' (by rw [hl2]; exact Nat.succ_le_of_lt (Nat.lt_of_le_of_ne ha' (Ne.symm e)))
        · intro x hx
          have hlen : h2.length ≤ (padTo n h2 t idx).length := (padTo_upd n h2 t idx).1
          rcases i2 x hx with h1 | ⟨h1, h1b⟩
          · rw [hk2] at h1
            rw [hk0]
            simp only [List.mem_append, List.mem_singleton] at h1 ⊢
            rcases h1 with h1 | h1 | h1
            · exact .inl (.inl h1)
            · exact .inl (.inr h1)
            · exact .inr ⟨by rw [h1]; exact Nat.le_refl _, by rw [h1]; exact Nat.lt_of_lt_of_le (by rw [hl2]; exact Nat.lt_succ_self _) hlen⟩
          · exact .inr ⟨by rw [hl2] at h1; exact Nat.le_of_succ_le h1, h1b⟩
      · exact ⟨fun a ha => kids_none ha, fun x hx => .inl hx⟩

/-- storing `c` under a segment of `t` -/
theorem storeSeg_kids (h0 : Heap) (t : Id) (s : Seg) (c : Id) (ht : t < h0.length) :
    (∀ a, a < h0.length → a ≠ t → kids (storeSeg h0 t s c) a = kids h0 a) ∧
    (∀ x, x ∈ kids (storeSeg h0 t s c) t → x ∈ kids h0 t ∨ (h0.length ≤ x ∧ x < (storeSeg h0 t s c).length) ∨ x = c) ∧
    (∀ a, h0.length ≤ a → kids (storeSeg h0 t s c) a = []) := by
  have u := storeSeg_upd h0 t s c
  refine ⟨fun a ha hne => kids_eq_of_node_eq (u.2.1 a ha hne), ?_, ?_⟩
  · cases s with
    | name k =>
      intro x hx
      unfold storeSeg at hx
      simp only at hx
      cases hg : getSub h0 t with
      | none => rw [hg] at hx; exact .inl hx
      | some q =>
        obtain ⟨p, f, d, a⟩ := q
        rw [hg] at hx
        simp only at hx
        rw [kids_of_node (setBody_same _ t _ _ (getSub_node hg))] at hx
        rw [kids_of_node (getSub_node hg)]
        simp only [Body.children, List.mem_append] at hx ⊢
        rcases hx with hx | hx
        · rcases mem_dictSet d k c x hx with e | e
          · exact .inr (.inr e)
          · exact .inl (.inl e)
        · exact .inl (.inr hx)
    | idx i =>
      intro x hx
      show x ∈ kids h0 t ∨ (h0.length ≤ x ∧ x < (setAt h0 t i c).length) ∨ x = c
      have hx' : x ∈ kids (setAt h0 t i c) t := hx
      have hlenA : (setAt h0 t i c).length = (padTo (i + 1) h0 t i).length := by
        unfold setAt
        simp only
        cases getSub (padTo (i + 1) h0 t i) t with
        | none => rfl
        | some q => simp only; split <;> rw [setBody_length]
      rw [hlenA]
      unfold setAt at hx'
      simp only at hx'
      obtain ⟨_, p2⟩ := padTo_kids (i + 1) h0 t i ht
      cases hg1 : getSub (padTo (i + 1) h0 t i) t with
      | none =>
        rw [hg1] at hx'
        rcases p2 x hx' with h1 | h1
        · exact .inl h1
        · exact .inr (.inl h1)
      | some q =>
        obtain ⟨p, f, d, a1⟩ := q
        rw [hg1] at hx'
        simp only at hx'
        have hk1 : kids (padTo (i + 1) h0 t i) t = d.map (·.2) ++ a1 := by rw [kids_of_node (getSub_node hg1)]; rfl
        have fin : x ∈ d.map (·.2) ++ a1 ∨ x = c := by
          split at hx'
          · rw [kids_of_node (setBody_same _ t _ _ (getSub_node hg1))] at hx'
            simp only [Body.children, List.mem_append] at hx' ⊢
            rcases hx' with h1 | h1
            · exact .inl (.inl h1)
            · rcases List.mem_or_eq_of_mem_set h1 with e | e
              · exact .inl (.inr e)
              · exact .inr e
          · rw [kids_of_node (setBody_same _ t _ _ (getSub_node hg1))] at hx'
            simp only [Body.children, List.mem_append, List.mem_singleton] at hx' ⊢
            rcases hx' with h1 | h1 | h1
            · exact .inl (.inl h1)
            · exact .inl (.inr h1)
            · exact .inr h1
        rcases fin with h1 | h1
        · rw [← hk1] at h1
          rcases p2 x h1 with h2 | h2
          · exact .inl h2
          · exact .inr (.inl h2)
        · exact .inr (.inr h1)
  · intro a ha
    have hne : a ≠ t := fun e => absurd ht (by rw [← e]; exact Nat.not_lt.mpr ha)
    cases s with
    | name k =>
      unfold storeSeg
      simp only
      cases hg : getSub h0 t with
      | none => exact kids_none ha
      | some q => simp only; exact kids_none (by rw [setBody_length]; exact ha)
    | idx i =>
      show kids (setAt h0 t i c) a = []
      unfold setAt
      simp only
      obtain ⟨p1, _⟩ := padTo_kids (i + 1) h0 t i ht
      cases hg1 : getSub (padTo (i + 1) h0 t i) t with
      | none => exact p1 a ha
      | some q =>
        obtain ⟨p, f, d, a1⟩ := q
        simp only
        split
        · unfold kids; rw [setBody_other _ _ _ _ hne]; exact p1 a ha
        · unfold kids; rw [setBody_other _ _ _ _ hne]; exact p1 a ha

theorem setChain_child_one (h : Heap) (to : Id) (s : Seg) (c : Id) :
    setChain h to [s] (.child c) = storeSeg (attachCtx h c to s.str) to s c := rfl

/-- SetChild along a path: what hangs below `t` afterwards is a chain of new nodes ending in `child` -/
theorem setChain_grows (child : Id) : ∀ (rest : List Seg) (h : Heap) (t : Id), t < h.length → child < h.length → rest ≠ [] →
    Grows h (setChain h t rest (.child child)) t child := by
  intro rest
  induction rest with
  | nil => intro h t _ _ hne; exact absurd rfl hne
  | cons s r ih =>
    intro h t ht hc _
    cases r with
    | nil =>
      rw [setChain_child_one]
      have hl := attachCtx_length h child t s.str
      obtain ⟨k1, k2, k3⟩ := storeSeg_kids (attachCtx h child t s.str) t s child (by rw [hl]; exact ht)
      refine ⟨?_, ?_, ?_⟩
      · intro a ha hne
        rw [k1 a (by rw [hl]; exact ha) hne, kids_attachCtx]
      · intro x hx
        rcases k2 x hx with h1 | h1 | h1
        · rw [kids_attachCtx] at h1; exact .inl h1
        · rw [hl] at h1; exact .inr (.inl h1.1)
        · exact .inr (.inr h1)
      · intro a ha x hx
        rw [k3 a (by rw [hl]; exact ha)] at hx
        cases hx
    | cons s2 r2 =>
      rw [setChain_cons2]
      generalize hnw : (⟨some t, s.str, .sub [] []⟩ : Node) = nw
      generalize hhA : h ++ [nw] = hA
      have hAl : hA.length = h.length + 1 := by rw [← hhA]; simp
      have htA : t < hA.length := by rw [hAl]; exact Nat.lt_succ_of_lt ht
      obtain ⟨k1, k2, k3⟩ := storeSeg_kids hA t s h.length htA
      have hl1' := (storeSeg_upd hA t s h.length).1
      generalize hh1 : storeSeg hA t s h.length = h1 at *
      have hl1 : h.length + 1 ≤ h1.length := by rw [← hAl]; exact hl1'
      have hc1 : h.length < h1.length := hl1
      have g := ih h1 h.length hc1 (Nat.lt_trans hc hc1) (by simp)
      have hne_t : t ≠ h.length := Nat.ne_of_lt ht
      have kA_old : ∀ a, a < h.length → kids hA a = kids h a := fun a ha =>
        kids_eq_of_node_eq (by rw [← hhA]; exact List.getElem?_append_left ha)
      have kA_new : kids hA h.length = [] := by
        have : hA[h.length]? = some nw := by rw [← hhA]; simp
        rw [kids_of_node this, ← hnw]; rfl
      refine ⟨?_, ?_, ?_⟩
      · intro a ha hne
        rw [g.old a (Nat.lt_trans ha hc1) (Nat.ne_of_lt ha), k1 a (by rw [hAl]; exact Nat.lt_succ_of_lt ha) hne, kA_old a ha]
      · intro x hx
        rw [g.old t (Nat.lt_trans ht hc1) hne_t] at hx
        rcases k2 x hx with e | e | e
        · rw [kA_old t ht] at e; exact .inl e
        · exact .inr (.inl (by rw [hAl] at e; exact Nat.le_of_succ_le e.1))
        · exact .inr (.inl (by rw [e]; exact Nat.le_refl _))
      · intro a ha x hx
        by_cases hge : h1.length ≤ a
        · exact g.new a hge x hx
        · have halt : a < h1.length := Nat.lt_of_not_le hge
          by_cases e : a = h.length
          · subst e
            rcases g.at_t x hx with e1 | e1 | e1
            · rw [k1 h.length (by rw [hAl]; exact Nat.lt_succ_self _) (Ne.symm hne_t), kA_new] at e1
              cases e1
            · exact .inl (Nat.lt_of_lt_of_le hc1 e1)
            · exact .inr e1
          · have hgeA : hA.length ≤ a := by
              rw [hAl]; exact Nat.succ_le_of_lt (Nat.lt_of_le_of_ne ha (Ne.symm e))
            rw [g.old a halt e, k3 a hgeA] at hx
            cases hx

/-! ### Set* with a new primitive at the end of the path: nothing old is attached, nothing can close a cycle -/

/-- as `Grows`, without a way out of the new nodes -/
structure Grows0 (h h' : Heap) (t : Id) : Prop where
  old : ∀ a, a < h.length → a ≠ t → kids h' a = kids h a
  at_t : ∀ x, x ∈ kids h' t → x ∈ kids h t ∨ h.length ≤ x
  new : ∀ a, h.length ≤ a → ∀ x, x ∈ kids h' a → a < x

theorem reach0_from_new {h h' : Heap} {t : Id} (g : Grows0 h h' t) {a b : Id} (r : Reach h' a b) :
    h.length ≤ a → a ≤ b ∧ h.length ≤ b := by
  induction r with
  | refl a => intro ha; exact ⟨Nat.le_refl _, ha⟩
  | @step a x b hx _ ih =>
    intro ha
    have hlt := g.new a ha x hx
    obtain ⟨h1, h2⟩ := ih (Nat.le_trans ha (Nat.le_of_lt hlt))
    exact ⟨Nat.le_trans (Nat.le_of_lt hlt) h1, h2⟩

/-- what reaches an old node is old and reached it before -/
theorem reach0_to_old {h h' : Heap} {t : Id} (g : Grows0 h h' t) {u b : Id} (r : Reach h' u b) :
    b < h.length → u < h.length ∧ Reach h u b := by
  induction r with
  | refl a => intro hb; exact ⟨hb, .refl a⟩
  | @step u y b hy hr ih =>
    intro hb
    obtain ⟨hyo, ryb⟩ := ih hb
    have huo : u < h.length := by
      apply Nat.lt_of_not_le
      intro hge
      have := g.new u hge y hy
      exact absurd (Nat.lt_of_le_of_lt hge this) (Nat.lt_asymm hyo)
    refine ⟨huo, ?_⟩
    by_cases hut : u = t
    · subst hut
      rcases g.at_t y hy with e | e
      · exact .step e ryb
      · exact absurd hyo (Nat.not_lt.mpr e)
    · rw [g.old u huo hut] at hy
      exact .step hy ryb

theorem grows0_noCycle {h h' : Heap} {t : Id} (g : Grows0 h h' t) (nc : NoCycle h) : NoCycle h' := by
  intro a x hx hr
  by_cases ha : a < h.length
  · obtain ⟨hxo, rxa⟩ := reach0_to_old g hr ha
    by_cases hat : a = t
    · subst hat
      rcases g.at_t x hx with e | e
      · exact nc a x e rxa
      · exact absurd hxo (Nat.not_lt.mpr e)
    · rw [g.old a ha hat] at hx
      exact nc a x hx rxa
  · have hge : h.length ≤ a := Nat.le_of_not_lt ha
    have hlt := g.new a hge x hx
    obtain ⟨h1, _⟩ := reach0_from_new g hr (Nat.le_trans hge (Nat.le_of_lt hlt))
    exact absurd hlt (Nat.not_lt.mpr h1)

theorem setChain_prim_grows0 (k v : String) : ∀ (rest : List Seg) (h : Heap) (t : Id), t < h.length → rest ≠ [] →
    Grows0 h (setChain h t rest (.prim k v)) t := by
  intro rest
  induction rest with
  | nil => intro h t _ hne; exact absurd rfl hne
  | cons s r ih =>
    intro h t ht _
    have hne_t : t ≠ h.length := Nat.ne_of_lt ht
    cases r with
    | nil =>
      rw [setChain_one]
      generalize hlf : (⟨some t, s.str, .prim k v⟩ : Node) = lf
      generalize hhA : h ++ [lf] = hA
      have hAl : hA.length = h.length + 1 := by rw [← hhA]; simp
      obtain ⟨k1, k2, k3⟩ := storeSeg_kids hA t s h.length (by rw [hAl]; exact Nat.lt_succ_of_lt ht)
      have kA_old : ∀ a, a < h.length → kids hA a = kids h a := fun a ha =>
        kids_eq_of_node_eq (by rw [← hhA]; exact List.getElem?_append_left ha)
      have kA_new : kids hA h.length = [] := by
        have : hA[h.length]? = some lf := by rw [← hhA]; simp
        rw [kids_of_node this, ← hlf]; rfl
      refine ⟨?_, ?_, ?_⟩
      · intro a ha hne
        rw [k1 a (by rw [hAl]; exact Nat.lt_succ_of_lt ha) hne, kA_old a ha]
      · intro x hx
        rcases k2 x hx with e | e | e
        · rw [kA_old t ht] at e; exact .inl e
        · exact .inr (by rw [hAl] at e; exact Nat.le_of_succ_le e.1)
        · exact .inr (by rw [e]; exact Nat.le_refl _)
      · intro a ha x hx
        by_cases e : a = h.length
        · subst e
          rw [k1 h.length (by rw [hAl]; exact Nat.lt_succ_self _) (Ne.symm hne_t), kA_new] at hx
          cases hx
        · rw [k3 a (by rw [hAl]; exact Nat.succ_le_of_lt (Nat.lt_of_le_of_ne ha (Ne.symm e)))] at hx
          cases hx
    | cons s2 r2 =>
      rw [setChain_cons2]
      generalize hnw : (⟨some t, s.str, .sub [] []⟩ : Node) = nw
      generalize hhA : h ++ [nw] = hA
      have hAl : hA.length = h.length + 1 := by rw [← hhA]; simp
      have htA : t < hA.length := by rw [hAl]; exact Nat.lt_succ_of_lt ht
      obtain ⟨k1, k2, k3⟩ := storeSeg_kids hA t s h.length htA
      have hl1' := (storeSeg_upd hA t s h.length).1
      generalize hh1 : storeSeg hA t s h.length = h1 at *
      have hc1 : h.length < h1.length := Nat.lt_of_lt_of_le (by rw [hAl]; exact Nat.lt_succ_self _) hl1'
      have g := ih h1 h.length hc1 (by simp)
      have kA_old : ∀ a, a < h.length → kids hA a = kids h a := fun a ha =>
        kids_eq_of_node_eq (by rw [← hhA]; exact List.getElem?_append_left ha)
      have kA_new : kids hA h.length = [] := by
        have : hA[h.length]? = some nw := by rw [← hhA]; simp
        rw [kids_of_node this, ← hnw]; rfl
      refine ⟨?_, ?_, ?_⟩
      · intro a ha hne
        rw [g.old a (Nat.lt_trans ha hc1) (Nat.ne_of_lt ha), k1 a (by rw [hAl]; exact Nat.lt_succ_of_lt ha) hne, kA_old a ha]
      · intro x hx
        rw [g.old t (Nat.lt_trans ht hc1) hne_t] at hx
        rcases k2 x hx with e | e | e
        · rw [kA_old t ht] at e; exact .inl e
        · exact .inr (by rw [hAl] at e; exact Nat.le_of_succ_le e.1)
        · exact .inr (by rw [e]; exact Nat.le_refl _)
      · intro a ha x hx
        by_cases hge : h1.length ≤ a
        · exact g.new a hge x hx
        · have halt : a < h1.length := Nat.lt_of_not_le hge
          by_cases e : a = h.length
          · subst e
            rcases g.at_t x hx with e1 | e1
            · rw [k1 h.length (by rw [hAl]; exact Nat.lt_succ_self _) (Ne.symm hne_t), kA_new] at e1
              cases e1
            · exact Nat.lt_of_lt_of_le hc1 e1
          · have hgeA : hA.length ≤ a := by
              rw [hAl]; exact Nat.succ_le_of_lt (Nat.lt_of_le_of_ne ha (Ne.symm e))
            rw [g.old a halt e, k3 a hgeA] at hx
            cases hx

/-! ### the entries stay inside the heap -/

theorem kidsClosed_append_leaf {h : Heap} (nd : Node) (kc : KidsClosed h) (hk : nd.body.children = []) :
    KidsClosed (h ++ [nd]) := by
  intro a x hx
  by_cases ha : a < h.length
  · rw [kids_eq_of_node_eq (List.getElem?_append_left ha)] at hx
    exact Nat.lt_of_lt_of_le (kc a x hx) (by simp)
  · by_cases e : a = h.length
    · subst e
      have : (h ++ [nd])[h.length]? = some nd := by simp
      rw [kids_of_node this, hk] at hx
      cases hx
    · have hge : (h ++ [nd]).length ≤ a := by
        simp only [List.length_append, List.length_cons, List.length_nil]
        exact Nat.succ_le_of_lt (Nat.lt_of_le_of_ne (Nat.le_of_not_lt ha) (Ne.symm e))
      rw [kids_none hge] at hx; cases hx

theorem storeSeg_kidsClosed (h0 : Heap) (t : Id) (s : Seg) (c : Id) (ht : t < h0.length) (hc : c < h0.length)
    (kc : KidsClosed h0) : KidsClosed (storeSeg h0 t s c) := by
  obtain ⟨k1, k2, k3⟩ := storeSeg_kids h0 t s c ht
  have hlen : h0.length ≤ (storeSeg h0 t s c).length := (storeSeg_upd h0 t s c).1
  intro a x hx
  by_cases ha : a < h0.length
  · by_cases e : a = t
    · subst e
      rcases k2 x hx with e1 | ⟨_, e1⟩ | e1
      · exact Nat.lt_of_lt_of_le (kc a x e1) hlen
      · exact e1
      · rw [e1]; exact Nat.lt_of_lt_of_le hc hlen
    · rw [k1 a ha e] at hx
      exact Nat.lt_of_lt_of_le (kc a x hx) hlen
  · rw [k3 a (Nat.le_of_not_lt ha)] at hx
    cases hx

theorem setChain_prim_kidsClosed (k v : String) : ∀ (rest : List Seg) (h : Heap) (t : Id), t < h.length → KidsClosed h →
    KidsClosed (setChain h t rest (.prim k v)) := by
  intro rest
  induction rest with
  | nil => intro h t _ kc; exact kc
  | cons s r ih =>
    intro h t ht kc
    cases r with
    | nil =>
      rw [setChain_one]
      apply storeSeg_kidsClosed _ t s h.length (by simp; exact Nat.lt_succ_of_lt ht) (by simp)
      exact kidsClosed_append_leaf _ kc rfl
    | cons s2 r2 =>
      rw [setChain_cons2]
      have kcA : KidsClosed (h ++ [(⟨some t, s.str, .sub [] []⟩ : Node)]) := kidsClosed_append_leaf _ kc rfl
      have kc1 := storeSeg_kidsClosed _ t s h.length (by simp; exact Nat.lt_succ_of_lt ht) (by simp) kcA
      have hl1 := (storeSeg_upd (h ++ [(⟨some t, s.str, .sub [] []⟩ : Node)]) t s h.length).1
      exact ih _ h.length (Nat.lt_of_lt_of_le (by simp) hl1) kc1

theorem kidsClosed_attachCtx {h : Heap} (child t : Id) (f : String) (kc : KidsClosed h) : KidsClosed (attachCtx h child t f) := by
  intro a x hx
  rw [kids_attachCtx] at hx
  rw [attachCtx_length]
  exact kc a x hx

theorem setChain_child_kidsClosed (child : Id) : ∀ (rest : List Seg) (h : Heap) (t : Id), t < h.length → child < h.length →
    KidsClosed h → KidsClosed (setChain h t rest (.child child)) := by
  intro rest
  induction rest with
  | nil => intro h t _ _ kc; exact kc
  | cons s r ih =>
    intro h t ht hc kc
    cases r with
    | nil =>
      rw [setChain_child_one]
      exact storeSeg_kidsClosed _ t s child (by rw [attachCtx_length]; exact ht) (by rw [attachCtx_length]; exact hc)
        (kidsClosed_attachCtx child t s.str kc)
    | cons s2 r2 =>
      rw [setChain_cons2]
      have kcA : KidsClosed (h ++ [(⟨some t, s.str, .sub [] []⟩ : Node)]) := kidsClosed_append_leaf _ kc rfl
      have kc1 := storeSeg_kidsClosed _ t s h.length (by simp; exact Nat.lt_succ_of_lt ht) (by simp) kcA
      have hl1 := (storeSeg_upd (h ++ [(⟨some t, s.str, .sub [] []⟩ : Node)]) t s h.length).1
      have hlt : h.length < (storeSeg (h ++ [(⟨some t, s.str, .sub [] []⟩ : Node)]) t s h.length).length :=
        Nat.lt_of_lt_of_le (by simp) hl1
      exact ih _ h.length hlt (Nat.lt_trans hc hlt) kc1

end Ucfg.Forest
