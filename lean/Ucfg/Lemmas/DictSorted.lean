import Ucfg.Lemmas.Dict
/-
  Dictionaries built by `dset` from the empty one are strictly sorted by key, hence without duplicates.
-/
namespace Ucfg

def dBelow (k : String) (d : Dict) : Bool := d.all (fun e => decide (k < e.1))

def dSorted : Dict → Bool
  | [] => true
  | (k, _) :: r => dBelow k r && dSorted r

theorem dBelow_iff (k : String) (d : Dict) : dBelow k d = true ↔ ∀ e ∈ d, k < e.1 := by
  simp [dBelow]

theorem str_tri (a b : String) (h1 : ¬ a = b) (h2 : ¬ a < b) : b < a := by
  have h3 : b ≤ a := String.not_lt.mp h2
  rcases Classical.em (b < a) with h | h
  · exact h
  · exact absurd (String.le_antisymm (String.not_lt.mp h) h3) h1

theorem mem_dset (d : Dict) (k : String) (v : Val) (hs : dSorted d = true) :
    ∀ e, e ∈ dset d k v → e = (k, v) ∨ (e ∈ d ∧ e.1 ≠ k) := by
  induction d with
  | nil => intro e he; simp [dset] at he; exact Or.inl he
  | cons kv r ih =>
    obtain ⟨k', v'⟩ := kv
    simp only [dSorted, Bool.and_eq_true] at hs
    obtain ⟨hb, hsr⟩ := hs
    rw [dBelow_iff] at hb
    intro e he
    unfold dset at he
    by_cases h1 : k = k'
    · simp only [h1, if_true, List.mem_cons] at he
      rcases he with he | he
      · exact Or.inl (by rw [he, h1])
      · refine Or.inr ⟨List.mem_cons_of_mem _ he, ?_⟩
        intro hk
        have := hb e he
        rw [hk, h1] at this
        exact String.lt_irrefl _ this
    · simp only [h1, if_false] at he
      by_cases h2 : k < k'
      · simp only [h2, if_true, List.mem_cons] at he
        rcases he with he | he | he
        · exact Or.inl he
        · refine Or.inr ⟨by rw [he]; exact List.mem_cons_self, ?_⟩
          rw [he]; exact fun hk => h1 hk.symm
        · refine Or.inr ⟨List.mem_cons_of_mem _ he, ?_⟩
          intro hk
          have := String.lt_trans h2 (hb e he)
          rw [hk] at this
          exact String.lt_irrefl _ this
      · simp only [h2, if_false, List.mem_cons] at he
        rcases he with he | he
        · refine Or.inr ⟨by rw [he]; exact List.mem_cons_self, ?_⟩
          rw [he]; exact fun hk => h1 hk.symm
        · rcases ih hsr e he with h | ⟨h, hne⟩
          · exact Or.inl h
          · exact Or.inr ⟨List.mem_cons_of_mem _ h, hne⟩

theorem dset_sorted (d : Dict) (k : String) (v : Val) (hs : dSorted d = true) : dSorted (dset d k v) = true := by
  induction d with
  | nil => simp [dset, dSorted, dBelow]
  | cons kv r ih =>
    obtain ⟨k', v'⟩ := kv
    simp only [dSorted, Bool.and_eq_true] at hs
    obtain ⟨hb, hsr⟩ := hs
    unfold dset
    by_cases h1 : k = k'
    · simp only [h1, if_true, dSorted, Bool.and_eq_true]
      exact ⟨hb, hsr⟩
    · simp only [h1, if_false]
      by_cases h2 : k < k'
      · simp only [h2, if_true, dSorted, Bool.and_eq_true]
        refine ⟨?_, hb, hsr⟩
        rw [dBelow_iff] at hb ⊢
        intro e he
        simp only [List.mem_cons] at he
        rcases he with he | he
        · rw [he]; exact h2
        · exact String.lt_trans h2 (hb e he)
      · simp only [h2, if_false, dSorted, Bool.and_eq_true]
        refine ⟨?_, ih hsr⟩
        rw [dBelow_iff] at hb ⊢
        intro e he
        rcases mem_dset r k v hsr e he with h | ⟨h, _⟩
        · rw [h]; exact str_tri k k' h1 h2
        · exact hb e h

theorem dSorted_nodup (d : Dict) (hs : dSorted d = true) : (dkeysOf d).Nodup := by
  induction d with
  | nil => simp [dkeysOf]
  | cons kv r ih =>
    obtain ⟨k, v⟩ := kv
    simp only [dSorted, Bool.and_eq_true] at hs
    obtain ⟨hb, hsr⟩ := hs
    rw [dBelow_iff] at hb
    simp only [dkeysOf, List.map_cons, List.nodup_cons]
    refine ⟨?_, ih hsr⟩
    intro hmem
    obtain ⟨e, he, hk⟩ := List.mem_map.mp hmem
    have := hb e he
    rw [hk] at this
    exact String.lt_irrefl _ this

end Ucfg
