import Ucfg.Lemmas.Forest
import Ucfg.Lemmas.ForestSet
/-!
  "Every node stores the position it is at" as an invariant of the whole heap: each entry of a node's dictionary is a
  node that stores this node as its parent and the entry's key as its name, each element of its list stores this node and
  its index.  Carried through deep copies here; through list appends, Merge and Set* in Props/C15.
-/
namespace Ucfg.Forest

/-- the children listed in `b` store `a` as their parent and the key / index they are listed under as their name -/
def Placed (h : Heap) (a : Id) : Body → Prop
  | .prim .. => True
  | .sub d arr =>
    (∀ kc ∈ d, ∃ b, h[kc.2]? = some (⟨some a, kc.1, b⟩ : Node)) ∧
    (∀ (i : Nat) (c : Id), arr[i]? = some c → ∃ b, h[c]? = some (⟨some a, idxName i, b⟩ : Node))

/-- the stored positions are the actual positions, everywhere -/
def WP (h : Heap) : Prop := ∀ (a : Nat) (nd : Node), h[a]? = some nd → Placed h a nd.body

theorem Placed.mono {h h' : Heap} {a : Id} {b : Body} (p : Placed h a b) (s : SameCtx h h') : Placed h' a b := by
  cases b with
  | prim k v => trivial
  | sub d arr =>
    refine ⟨?_, ?_⟩
    · intro kc hkc
      obtain ⟨b0, hb0⟩ := p.1 kc hkc
      exact s.2 _ _ hb0
    · intro i c hc
      obtain ⟨b0, hb0⟩ := p.2 i c hc
      exact s.2 _ _ hb0

theorem lt_of_getElem?_some {α : Type} {l : List α} {i : Nat} {x : α} (h : l[i]? = some x) : i < l.length := by
  apply Nat.lt_of_not_le
  intro hle
  rw [List.getElem?_eq_none hle] at h
  cases h

/-- appending nodes that are placed themselves -/
theorem wp_append {h : Heap} (t : List Node) (w : WP h)
    (ht : ∀ (j : Nat) (nd : Node), t[j]? = some nd → Placed (h ++ t) (h.length + j) nd.body) : WP (h ++ t) := by
  intro a nd hn
  by_cases hlt : a < h.length
  · rw [List.getElem?_append_left hlt] at hn
    exact (w a nd hn).mono (upd_append h 0 t).sameCtx
  · have hge : h.length ≤ a := Nat.le_of_not_lt hlt
    rw [List.getElem?_append_right hge] at hn
    have := ht (a - h.length) nd hn
    have e : h.length + (a - h.length) = a := by omega
    rw [e] at this
    exact this

/-- writing a body whose children are placed -/
theorem wp_setBody {h : Heap} (to : Id) (b : Body) (w : WP h) (pb : Placed h to b) : WP (setBody h to b) := by
  have s : SameCtx h (setBody h to b) := (upd_setBody h to b).sameCtx
  intro a nd hn
  by_cases e : a = to
  · subst e
    cases h0 : h[a]? with
    | none =>
      have : setBody h a b = h := by unfold setBody; rw [h0]
      rw [this, h0] at hn; cases hn
    | some n0 =>
      rw [setBody_same h a b n0 h0] at hn
      simp only [Option.some.injEq] at hn
      subst hn
      exact pb.mono s
  · rw [setBody_other h to a b e] at hn
    exact (w a nd hn).mono s

/-- a copying function keeps the invariant -/
def CpyWP (f : Heap → Id → Option Id → String → Option (Heap × Id)) : Prop :=
  ∀ (h : Heap) (c : Id) (p : Option Id) (fl : String) (h' : Heap) (id' : Id), WP h → f h c p fl = some (h', id') → WP h'

theorem sameCtx_of_append (h : Heap) (t : List Node) : SameCtx h (h ++ t) := (upd_append h 0 t).sameCtx

/-- copying a list of children below `me`: each copy stores `me` and the name its original stores -/
theorem cpyList_wp {κ : Type} (f : Heap → Id → Option Id → String → Option (Heap × Id)) (me : Nat)
    (hf : Good f 0) (hw : CpyWP f) :
    ∀ (cs : List (κ × Id)) (h h2 : Heap) (cs' : List (κ × Id)), WP h →
      cpyList f me h cs = some (h2, cs') →
      WP h2 ∧ (∃ t, h2 = h ++ t) ∧ cs'.length = cs.length ∧
      ∀ (i : Nat) (kc kc' : κ × Id), cs[i]? = some kc → cs'[i]? = some kc' →
        kc'.1 = kc.1 ∧ ∀ n : Node, h[kc.2]? = some n → ∃ b, h2[kc'.2]? = some (⟨some me, n.field, b⟩ : Node) := by
  intro cs
  induction cs with
  | nil =>
    intro h h2 cs' w he
    simp only [cpyList, Option.some.injEq, Prod.mk.injEq] at he
    obtain ⟨rfl, rfl⟩ := he
    exact ⟨w, ⟨[], by simp⟩, rfl, fun i kc kc' hi => by simp at hi⟩
  | cons kc r ih =>
    intro h h2 cs' w he
    obtain ⟨k, c⟩ := kc
    simp only [cpyList] at he
    cases hn : h[c]? with
    | none => simp [hn] at he
    | some n =>
      simp only [hn] at he
      cases hc : f h c (some me) n.field with
      | none => simp [hc] at he
      | some r1 =>
        obtain ⟨h1, c'⟩ := r1
        simp only [hc] at he
        cases hr : cpyList f me h1 r with
        | none => simp [hr] at he
        | some r2 =>
          obtain ⟨h2', r'⟩ := r2
          simp only [hr, Option.some.injEq, Prod.mk.injEq] at he
          obtain ⟨rfl, rfl⟩ := he
          obtain ⟨t1, rfl, _, _, ⟨b1, hb1⟩⟩ := hf h c (some me) n.field h1 c' (Nat.zero_le _) hc
          have w1 : WP (h ++ t1) := hw h c (some me) n.field _ c' w hc
          obtain ⟨w2, ⟨t2, rfl⟩, hlen, hrel⟩ := ih (h ++ t1) h2' r' w1 hr
          refine ⟨w2, ⟨t1 ++ t2, by simp⟩, by simp [hlen], ?_⟩
          intro i kc kc' hi hi'
          cases i with
          | zero =>
            simp only [List.getElem?_cons_zero, Option.some.injEq] at hi hi'
            subst hi; subst hi'
            refine ⟨rfl, ?_⟩
            intro n' hn'
            simp only at hn'
            rw [hn] at hn'
            simp only [Option.some.injEq] at hn'
            subst hn'
            exact (sameCtx_of_append (h ++ t1) t2).2 _ _ hb1
          | succ j =>
            simp only [List.getElem?_cons_succ] at hi hi'
            obtain ⟨e1, e2⟩ := hrel j kc kc' hi hi'
            refine ⟨e1, ?_⟩
            intro n' hn'
            exact e2 n' (by rw [List.getElem?_append_left (lt_of_getElem?_some hn')]; exact hn')

/-- a deep copy keeps the invariant: the copy is built from nodes that store their positions in the copy -/
theorem cpy_wp : ∀ n : Nat, CpyWP (cpy n) := by
  intro n
  induction n with
  | zero => intro h c p fl h' id' _ he; simp [cpy] at he
  | succ n ih =>
    intro h id p fl h' id' w he
    simp only [cpy] at he
    cases hn : h[id]? with
    | none => simp [hn] at he
    | some nd =>
      obtain ⟨np, nf, nb⟩ := nd
      cases nb with
      | prim k v =>
        simp only [hn, Option.some.injEq, Prod.mk.injEq] at he
        obtain ⟨rfl, rfl⟩ := he
        apply wp_append _ w
        intro j nd hj
        cases j with
        | zero => simp only [List.getElem?_cons_zero, Option.some.injEq] at hj; subst hj; trivial
        | succ j => simp at hj
      | sub d a =>
        simp only [hn] at he
        cases h1e : cpyList (cpy n) h.length (h ++ [⟨p, fl, .sub [] []⟩]) d with
        | none => simp [h1e] at he
        | some r1 =>
          obtain ⟨h2, d'⟩ := r1
          simp only [h1e] at he
          cases h2e : cpyList (cpy n) h.length h2 (a.map (fun c => ((), c))) with
          | none => simp [h2e] at he
          | some r2 =>
            obtain ⟨h3, a'⟩ := r2
            simp only [h2e, Option.some.injEq, Prod.mk.injEq] at he
            obtain ⟨rfl, rfl⟩ := he
            let me := h.length
            let nw : Node := ⟨p, fl, .sub [] []⟩
            have w1 : WP (h ++ [nw]) := by
              apply wp_append _ w
              intro j nd hj
              cases j with
              | zero =>
                simp only [List.getElem?_cons_zero, Option.some.injEq] at hj
                subst hj
                exact ⟨fun kc hkc => (by cases hkc), fun i c hc => (by simp at hc)⟩
              | succ j => simp at hj
            obtain ⟨w2, ⟨t1, ht1⟩, hl1, hrel1⟩ := cpyList_wp (cpy n) me (cpy_good n 0) ih d _ h2 d' w1 h1e
            subst ht1
            obtain ⟨w3, ⟨t2, ht2⟩, hl2, hrel2⟩ := cpyList_wp (cpy n) me (cpy_good n 0) ih _ _ h3 a' w2 h2e
            subst ht2
            -- the node of the copy still is the empty object it was created as: the final write is a write of its body
            have hme : (h ++ [nw] ++ t1 ++ t2)[me]? = some nw := by
              have : h ++ [nw] ++ t1 ++ t2 = h ++ (nw :: (t1 ++ t2)) := by simp
              rw [this, List.getElem?_append_right (Nat.le_refl _)]
              simp [me]
            have hset : (h ++ [nw] ++ t1 ++ t2).set me ⟨p, fl, .sub d' (a'.map (·.2))⟩ =
                setBody (h ++ [nw] ++ t1 ++ t2) me (.sub d' (a'.map (·.2))) := by
              unfold setBody; rw [hme]
            show WP ((h ++ [nw] ++ t1 ++ t2).set me ⟨p, fl, .sub d' (a'.map (·.2))⟩)
            rw [hset]
            apply wp_setBody _ _ w3
            -- the source node is placed in `h`: its children store the names they are listed under
            have hsrc := w id _ hn
            have s01 : SameCtx h (h ++ [nw]) := sameCtx_of_append h [nw]
            refine ⟨?_, ?_⟩
            · intro kc' hkc'
              obtain ⟨i, hi'⟩ := List.getElem?_of_mem hkc'
              have hil : i < d.length := by rw [← hl1]; exact lt_of_getElem?_some hi'
              obtain ⟨e1, e2⟩ := hrel1 i d[i] kc' (List.getElem?_eq_getElem hil) hi'
              obtain ⟨b0, hb0⟩ := hsrc.1 d[i] (List.getElem_mem hil)
              obtain ⟨b1, hb1⟩ := s01.2 _ _ hb0
              obtain ⟨b2, hb2⟩ := e2 _ hb1
              simp only at hb2
              rw [e1]
              exact (sameCtx_of_append _ t2).2 _ _ hb2
            · intro i c' hc'
              rw [List.getElem?_map] at hc'
              cases hai : a'[i]? with
              | none => rw [hai] at hc'; cases hc'
              | some kc' =>
                rw [hai] at hc'
                simp only [Option.map_some, Option.some.injEq] at hc'
                subst hc'
                have hil : i < (a.map (fun c => ((), c))).length := by rw [← hl2]; exact lt_of_getElem?_some hai
                have hia : i < a.length := by simpa using hil
                obtain ⟨_, e2⟩ := hrel2 i ((), a[i]) kc' (by rw [List.getElem?_map, List.getElem?_eq_getElem hia]; rfl) hai
                obtain ⟨b0, hb0⟩ := hsrc.2 i a[i] (List.getElem?_eq_getElem hia)
                obtain ⟨b1, hb1⟩ := (s01.trans (sameCtx_of_append _ t1)).2 _ _ hb0
                obtain ⟨b2, hb2⟩ := e2 _ hb1
                exact ⟨b2, hb2⟩

end Ucfg.Forest
