import Ucfg.Lemmas.Forest
/-!
  The frame of a heap-level merge: given a set `S` of node ids that nothing outside of it points into, a merge whose
  destination lies outside `S` leaves every node of `S` exactly as it was.
-/
namespace Ucfg.Forest

variable (S : Id → Prop) (base : Nat)

/-- the nodes outside `S` have no child in `S` -/
def Sep (h : Heap) : Prop := ∀ x nd, h[x]? = some nd → ¬ S x → ∀ c ∈ nd.body.children, ¬ S c

/-- nothing in `S` changed, nothing was deallocated -/
def Keeps (h h' : Heap) : Prop := (∀ i, S i → h'[i]? = h[i]?) ∧ h.length ≤ h'.length

theorem Keeps.refl (h : Heap) : Keeps S h h := ⟨fun _ _ => rfl, Nat.le_refl _⟩

theorem Keeps.trans {h1 h2 h3 : Heap} (a : Keeps S h1 h2) (b : Keeps S h2 h3) : Keeps S h1 h3 :=
  ⟨fun i hi => by rw [b.1 i hi, a.1 i hi], Nat.le_trans a.2 b.2⟩

/-- writing the body of a node outside `S` with children outside `S` -/
theorem setBody_step (hS : ∀ i : Nat, S i → i < base) (h : Heap) (to : Id) (b : Body) (hto : ¬ S to)
    (hsep : Sep S h) (hb : ∀ c ∈ b.children, ¬ S c) :
    Sep S (setBody h to b) ∧ Keeps S h (setBody h to b) := by
  refine ⟨?_, ⟨fun i hi => setBody_other h to i b (fun e => hto (e ▸ hi)), by rw [setBody_length]; exact Nat.le_refl _⟩⟩
  intro x nd hx hnx c hc
  by_cases e : x = to
  · subst e
    cases hn : h[x]? with
    | none =>
      have : setBody h x b = h := by unfold setBody; rw [hn]
      rw [this, hn] at hx; cases hx
    | some n0 =>
      rw [setBody_same h x b n0 hn] at hx
      simp only [Option.some.injEq] at hx
      subst hx
      exact hb c hc
  · rw [setBody_other h to x b e] at hx
    exact hsep x nd hx hnx c hc

/-- a deep copy appends nodes that point to new nodes only -/
theorem cpy_step (hS : ∀ i : Nat, S i → i < base) (cf : Nat) (h h1 : Heap) (v c : Id) (p : Option Id) (k : String)
    (hb : base ≤ h.length) (hsep : Sep S h) (hc : cpy cf h v p k = some (h1, c)) :
    Sep S h1 ∧ Keeps S h h1 ∧ ¬ S c ∧ base ≤ h1.length := by
  obtain ⟨t, rfl, hid, hfr, _⟩ := cpy_good cf h.length h v p k h1 c (Nat.le_refl _) hc
  refine ⟨?_, ⟨?_, by simp⟩, ?_, by simp; omega⟩
  · intro x nd hx hnx ch hch
    by_cases hl : x < h.length
    · rw [List.getElem?_append_left hl] at hx
      exact hsep x nd hx hnx ch hch
    · have hge : h.length ≤ x := Nat.le_of_not_lt hl
      rw [List.getElem?_append_right hge] at hx
      have hmem : nd ∈ t := List.mem_of_getElem? hx
      have h1 : h.length ≤ ch := hfr nd hmem ch hch
      intro hs
      have h2 : ch < base := hS ch hs
      exact absurd (Nat.lt_of_lt_of_le h2 hb) (Nat.not_lt.mpr h1)
  · intro i hi
    have : i < h.length := Nat.lt_of_lt_of_le (hS i hi) hb
    rw [List.getElem?_append_left this]
  · intro hs
    have h2 : c < base := hS c hs
    rw [hid] at h2
    exact absurd (Nat.lt_of_lt_of_le h2 hb) (Nat.lt_irrefl _)

theorem getSub_children {h : Heap} {id : Id} {p f d a} (hg : getSub h id = some (p, f, d, a)) :
    ∃ nd, h[id]? = some nd ∧ nd.body.children = d.map (·.2) ++ a := by
  unfold getSub at hg
  cases hn : h[id]? with
  | none => rw [hn] at hg; cases hg
  | some nd =>
    rw [hn] at hg
    obtain ⟨p', f', b⟩ := nd
    cases b with
    | prim k v => cases hg
    | sub d' a' =>
      simp only [Option.some.injEq, Prod.mk.injEq] at hg
      obtain ⟨_, _, rfl, rfl⟩ := hg
      exact ⟨_, rfl, rfl⟩

theorem mem_dictSet (d : List (String × Id)) (k : String) (c : Id) :
    ∀ x ∈ (dictSet d k c).map (·.2), x = c ∨ x ∈ d.map (·.2) := by
  intro x hx
  unfold dictSet at hx
  split at hx
  · simp only [List.map_map, List.mem_map, Function.comp] at hx
    obtain ⟨e, he, rfl⟩ := hx
    obtain ⟨k', c'⟩ := e
    by_cases hk : (k' == k) = true
    · simp [hk]
    · simp only [hk]
      exact Or.inr (List.mem_map_of_mem (f := (·.2)) he)
  · simp only [List.map_append, List.map_cons, List.map_nil, List.mem_append, List.mem_singleton] at hx
    rcases hx with h | h
    · exact Or.inr h
    · exact Or.inl h

/-- fields.append: copies stored behind the current elements -/
theorem appendCpy_step (hS : ∀ i : Nat, S i → i < base) (cf : Nat) : ∀ (src : List Id) (h h' : Heap) (to : Id),
    base ≤ h.length → Sep S h → ¬ S to → appendCpy cf h to src = some h' →
    Sep S h' ∧ Keeps S h h' ∧ base ≤ h'.length
  | [], h, h', to, hb, hsep, _, he => by
    simp only [appendCpy, Option.some.injEq] at he
    subst he
    exact ⟨hsep, Keeps.refl S h, hb⟩
  | c :: r, h, h', to, hb, hsep, hto, he => by
    simp only [appendCpy] at he
    cases hg : getSub h to with
    | none => rw [hg] at he; cases he
    | some q =>
      obtain ⟨p, f, d, a⟩ := q
      rw [hg] at he
      simp only at he
      cases hc : cpy cf h c (some to) (idxName a.length) with
      | none => rw [hc] at he; cases he
      | some r1 =>
        obtain ⟨h1, c'⟩ := r1
        rw [hc] at he
        simp only at he
        obtain ⟨hsep1, hk1, hnc, hb1⟩ := cpy_step S base hS cf h h1 c c' (some to) _ hb hsep hc
        obtain ⟨nd, hnd, hch⟩ := getSub_children hg
        have hold : ∀ x ∈ d.map (·.2) ++ a, ¬ S x := by
          intro x hx
          exact hsep to nd hnd hto x (hch ▸ hx)
        have hbody : ∀ x ∈ (Body.sub d (a ++ [c'])).children, ¬ S x := by
          intro x hx
          simp only [Body.children, List.mem_append, List.mem_singleton] at hx
          rcases hx with hx | hx | hx
          · exact hold x (List.mem_append_left _ hx)
          · exact hold x (List.mem_append_right _ hx)
          · rw [hx]; exact hnc
        obtain ⟨hsep2, hk2⟩ := setBody_step S base hS h1 to _ hto hsep1 hbody
        obtain ⟨hsep3, hk3, hb3⟩ := appendCpy_step hS cf r _ h' to (by rw [setBody_length]; exact hb1) hsep2 hto he
        exact ⟨hsep3, (hk1.trans S hk2).trans S hk3, hb3⟩

theorem mergeListCopy_step (hS : ∀ i : Nat, S i → i < base) (cf : Nat) (pol : ArrPol) (h h' : Heap) (to : Id) (fa : List Id)
    (hb : base ≤ h.length) (hsep : Sep S h) (hto : ¬ S to) (he : mergeListCopy cf pol h to fa = some h') :
    Sep S h' ∧ Keeps S h h' ∧ base ≤ h'.length := by
  -- clearing the list part of `to`
  have clear : ∀ p f td ta, getSub h to = some (p, f, td, ta) →
      Sep S (setBody h to (.sub td [])) ∧ Keeps S h (setBody h to (.sub td [])) := by
    intro p f td ta hg
    obtain ⟨nd, hnd, hch⟩ := getSub_children hg
    apply setBody_step S base hS h to _ hto hsep
    intro x hx
    simp only [Body.children, List.append_nil] at hx
    exact hsep to nd hnd hto x (hch ▸ List.mem_append_left _ hx)
  unfold mergeListCopy at he
  cases pol with
  | append => exact appendCpy_step S base hS cf fa h h' to hb hsep hto he
  | merge => exact appendCpy_step S base hS cf fa h h' to hb hsep hto he
  | replace =>
    simp only at he
    split at he
    · cases he; exact ⟨hsep, Keeps.refl S h, hb⟩
    · cases hg : getSub h to with
      | none => rw [hg] at he; cases he
      | some q =>
        obtain ⟨p, f, td, ta⟩ := q
        rw [hg] at he
        obtain ⟨hs1, hk1⟩ := clear p f td ta hg
        obtain ⟨hs2, hk2, hb2⟩ := appendCpy_step S base hS cf fa _ h' to (by rw [setBody_length]; exact hb) hs1 hto he
        exact ⟨hs2, hk1.trans S hk2, hb2⟩
  | replaceArr =>
    simp only at he
    split at he
    · cases he; exact ⟨hsep, Keeps.refl S h, hb⟩
    · cases hg : getSub h to with
      | none => rw [hg] at he; cases he
      | some q =>
        obtain ⟨p, f, td, ta⟩ := q
        rw [hg] at he
        obtain ⟨hs1, hk1⟩ := clear p f td ta hg
        obtain ⟨hs2, hk2, hb2⟩ := appendCpy_step S base hS cf fa _ h' to (by rw [setBody_length]; exact hb) hs1 hto he
        exact ⟨hs2, hk1.trans S hk2, hb2⟩
  | prepend =>
    simp only at he
    split at he
    · cases he; exact ⟨hsep, Keeps.refl S h, hb⟩
    · cases hg : getSub h to with
      | none => rw [hg] at he; cases he
      | some q =>
        obtain ⟨p, f, td, ta⟩ := q
        rw [hg] at he
        simp only at he
        obtain ⟨hs1, hk1⟩ := clear p f td ta hg
        cases ha : appendCpy cf (setBody h to (.sub td [])) to fa with
        | none => rw [ha] at he; cases he
        | some h1 =>
          rw [ha] at he
          simp only at he
          obtain ⟨hs2, hk2, hb2⟩ := appendCpy_step S base hS cf fa _ h1 to (by rw [setBody_length]; exact hb) hs1 hto ha
          obtain ⟨hs3, hk3, hb3⟩ := appendCpy_step S base hS cf ta h1 h' to hb2 hs2 hto he
          exact ⟨hs3, (hk1.trans S hk2).trans S hk3, hb3⟩

/-- the claims of the induction over the fuel -/
structure MClaims (n : Nat) : Prop where
  mh : ∀ (cf : Nat) (pol : ArrPol) (h h' : Heap) (to frm : Id), base ≤ h.length → Sep S h → ¬ S to →
    mergeH n cf pol h to frm = some h' → Sep S h' ∧ Keeps S h h' ∧ base ≤ h'.length
  md : ∀ (cf : Nat) (pol : ArrPol) (h h' : Heap) (to : Id) (fd : List (String × Id)), base ≤ h.length → Sep S h → ¬ S to →
    mergeDictH n cf pol h to fd = some h' → Sep S h' ∧ Keeps S h h' ∧ base ≤ h'.length
  mi : ∀ (cf : Nat) (pol : ArrPol) (h h' : Heap) (to : Id) (i : Nat) (fa : List Id), base ≤ h.length → Sep S h → ¬ S to →
    mergeIdxH n cf pol h to i fa = some h' → Sep S h' ∧ Keeps S h h' ∧ base ≤ h'.length

/-- storing a copy of `v` under a name / at an index of `to`, then going on: the common tail of both loops -/
theorem store_step (hS : ∀ i : Nat, S i → i < base) (cf : Nat) (h : Heap) (to v : Id) (k : String) (b : Id → Body)
    (hb : base ≤ h.length) (hsep : Sep S h) (hto : ¬ S to)
    (hbody : ∀ c, ¬ S c → ∀ x ∈ (b c).children, ¬ S x)
    (h1 : Heap) (c : Id) (hc : cpy cf h v (some to) k = some (h1, c)) :
    Sep S (setBody h1 to (b c)) ∧ Keeps S h (setBody h1 to (b c)) ∧ base ≤ (setBody h1 to (b c)).length := by
  obtain ⟨hs1, hk1, hnc, hb1⟩ := cpy_step S base hS cf h h1 v c (some to) k hb hsep hc
  obtain ⟨hs2, hk2⟩ := setBody_step S base hS h1 to (b c) hto hs1 (hbody c hnc)
  exact ⟨hs2, hk1.trans S hk2, by rw [setBody_length]; exact hb1⟩

theorem mclaims (hS : ∀ i : Nat, S i → i < base) : ∀ n, MClaims S base n := by
  intro n
  induction n with
  | zero =>
    refine ⟨?_, ?_, ?_⟩
    · intro cf pol h h' to frm _ _ _ he; simp [mergeH] at he
    · intro cf pol h h' to fd _ _ _ he; simp [mergeDictH] at he
    · intro cf pol h h' to i fa _ _ _ he; simp [mergeIdxH] at he
  | succ n IH =>
    refine ⟨?_, ?_, ?_⟩
    · -- mergeH
      intro cf pol h h' to frm hb hsep hto he
      simp only [mergeH] at he
      cases hg : getSub h to with
      | none => rw [hg] at he; cases he
      | some q =>
        obtain ⟨p, f, td0, ta0⟩ := q
        cases hgf : getSub h frm with
        | none => rw [hg, hgf] at he; cases he
        | some qf =>
          obtain ⟨pf, ff, fd, fa⟩ := qf
          rw [hg, hgf] at he
          simp only at he
          -- the dictionary of `to` is cleared first under the replace policy
          have h0 : Sep S (if (!fd.isEmpty && pol == ArrPol.replace) = true then setBody h to (.sub [] ta0) else h) ∧
              Keeps S h (if (!fd.isEmpty && pol == ArrPol.replace) = true then setBody h to (.sub [] ta0) else h) ∧
              base ≤ (if (!fd.isEmpty && pol == ArrPol.replace) = true then setBody h to (.sub [] ta0) else h).length := by
            split
            · obtain ⟨nd, hnd, hch⟩ := getSub_children hg
              obtain ⟨a, b⟩ := setBody_step S base hS h to (.sub [] ta0) hto hsep (by
                intro x hx
                simp only [Body.children, List.map_nil, List.nil_append] at hx
                exact hsep to nd hnd hto x (hch ▸ List.mem_append_right _ hx))
              exact ⟨a, b, by rw [setBody_length]; exact hb⟩
            · exact ⟨hsep, Keeps.refl S h, hb⟩
          obtain ⟨hs0, hk0, hb0⟩ := h0
          cases hd : mergeDictH n cf pol (if (!fd.isEmpty && pol == ArrPol.replace) = true then setBody h to (.sub [] ta0) else h) to fd with
          | none => rw [hd] at he; cases he
          | some h1 =>
            rw [hd] at he
            simp only at he
            obtain ⟨hs1, hk1, hb1⟩ := IH.md cf pol _ h1 to fd hb0 hs0 hto hd
            split at he
            · obtain ⟨hs2, hk2, hb2⟩ := IH.mi cf pol h1 h' to 0 fa hb1 hs1 hto he
              exact ⟨hs2, (hk0.trans S hk1).trans S hk2, hb2⟩
            · obtain ⟨hs2, hk2, hb2⟩ := mergeListCopy_step S base hS cf pol h1 h' to fa hb1 hs1 hto he
              exact ⟨hs2, (hk0.trans S hk1).trans S hk2, hb2⟩
    · -- mergeDictH
      intro cf pol h h' to fd hb hsep hto he
      cases fd with
      | nil =>
        simp only [mergeDictH, Option.some.injEq] at he
        subst he
        exact ⟨hsep, Keeps.refl S h, hb⟩
      | cons kv r =>
        obtain ⟨k, v⟩ := kv
        simp only [mergeDictH] at he
        cases hg : getSub h to with
        | none => rw [hg] at he; cases he
        | some q =>
          obtain ⟨p, f, td, ta⟩ := q
          cases hv : h[v]? with
          | none => rw [hg, hv] at he; cases he
          | some vn =>
            rw [hg, hv] at he
            simp only at he
            obtain ⟨nd, hnd, hch⟩ := getSub_children hg
            have hold : ∀ x ∈ td.map (·.2) ++ ta, ¬ S x := fun x hx => hsep to nd hnd hto x (hch ▸ hx)
            -- storing a copy under the name
            have store : (match cpy cf h v (some to) k with
                | none => none
                | some (h1, c) => mergeDictH n cf pol (setBody h1 to (.sub (dictSet td k c) ta)) to r) = some h' →
                Sep S h' ∧ Keeps S h h' ∧ base ≤ h'.length := by
              intro hst
              cases hc : cpy cf h v (some to) k with
              | none => rw [hc] at hst; cases hst
              | some r1 =>
                obtain ⟨h1, c⟩ := r1
                rw [hc] at hst
                simp only at hst
                obtain ⟨hs2, hk2, hb2⟩ := store_step S base hS cf h to v k (fun c => .sub (dictSet td k c) ta) hb hsep hto (by
                  intro c hnc x hx
                  simp only [Body.children, List.mem_append] at hx
                  rcases hx with hx | hx
                  · rcases mem_dictSet td k c x hx with e | e
                    · rw [e]; exact hnc
                    · exact hold x (List.mem_append_left _ e)
                  · exact hold x (List.mem_append_right _ hx)) h1 c hc
                obtain ⟨hs3, hk3, hb3⟩ := IH.md cf pol _ h' to r hb2 hs2 hto hst
                exact ⟨hs3, hk2.trans S hk3, hb3⟩
            cases hf : (td.find? (fun x => x.1 == k)).map (·.2) with
            | none => rw [hf] at he; exact store he
            | some o =>
              rw [hf] at he
              simp only at he
              have ho : ¬ S o := by
                apply hold o
                apply List.mem_append_left
                cases hfind : td.find? (fun x => x.1 == k) with
                | none => rw [hfind] at hf; cases hf
                | some e =>
                  rw [hfind] at hf
                  simp only [Option.map_some, Option.some.injEq] at hf
                  rw [← hf]
                  exact List.mem_map_of_mem (f := (·.2)) (List.mem_of_find?_eq_some hfind)
              cases hon : h[o]? with
              | none => rw [hon] at he; cases he
              | some on =>
                rw [hon] at he
                simp only at he
                split at he
                · cases he
                · split at he
                  · cases hm : mergeH n cf pol h o v with
                    | none => rw [hm] at he; cases he
                    | some h1 =>
                      rw [hm] at he
                      simp only at he
                      obtain ⟨hs1, hk1, hb1⟩ := IH.mh cf pol h h1 o v hb hsep ho hm
                      obtain ⟨hs2, hk2, hb2⟩ := IH.md cf pol h1 h' to r hb1 hs1 hto he
                      exact ⟨hs2, hk1.trans S hk2, hb2⟩
                  · exact store he
    · -- mergeIdxH
      intro cf pol h h' to i fa hb hsep hto he
      cases fa with
      | nil =>
        simp only [mergeIdxH, Option.some.injEq] at he
        subst he
        exact ⟨hsep, Keeps.refl S h, hb⟩
      | cons v r =>
        simp only [mergeIdxH] at he
        cases hg : getSub h to with
        | none => rw [hg] at he; cases he
        | some q =>
          obtain ⟨p, f, td, ta⟩ := q
          cases hv : h[v]? with
          | none => rw [hg, hv] at he; cases he
          | some vn =>
            rw [hg, hv] at he
            simp only at he
            obtain ⟨nd, hnd, hch⟩ := getSub_children hg
            have hold : ∀ x ∈ td.map (·.2) ++ ta, ¬ S x := fun x hx => hsep to nd hnd hto x (hch ▸ hx)
            cases hi : ta[i]? with
            | none =>
              rw [hi] at he
              exact appendCpy_step S base hS cf (v :: r) h h' to hb hsep hto he
            | some o =>
              rw [hi] at he
              simp only at he
              have ho : ¬ S o := hold o (List.mem_append_right _ (List.mem_of_getElem? hi))
              have store : (match cpy cf h v (some to) (idxName i) with
                  | none => none
                  | some (h1, c) => mergeIdxH n cf pol (setBody h1 to (.sub td (ta.set i c))) to (i + 1) r) = some h' →
                  Sep S h' ∧ Keeps S h h' ∧ base ≤ h'.length := by
                intro hst
                cases hc : cpy cf h v (some to) (idxName i) with
                | none => rw [hc] at hst; cases hst
                | some r1 =>
                  obtain ⟨h1, c⟩ := r1
                  rw [hc] at hst
                  simp only at hst
                  obtain ⟨hs2, hk2, hb2⟩ := store_step S base hS cf h to v (idxName i) (fun c => .sub td (ta.set i c)) hb hsep hto (by
                    intro c hnc x hx
                    simp only [Body.children, List.mem_append] at hx
                    rcases hx with hx | hx
                    · exact hold x (List.mem_append_left _ hx)
                    · rcases List.mem_or_eq_of_mem_set hx with e | e
                      · exact hold x (List.mem_append_right _ e)
                      · rw [e]; exact hnc) h1 c hc
                  obtain ⟨hs3, hk3, hb3⟩ := IH.mi cf pol _ h' to (i + 1) r hb2 hs2 hto hst
                  exact ⟨hs3, hk2.trans S hk3, hb3⟩
              cases hon : h[o]? with
              | none => rw [hon] at he; cases he
              | some on =>
                rw [hon] at he
                simp only at he
                split at he
                · cases he
                · split at he
                  · cases hm : mergeH n cf pol h o v with
                    | none => rw [hm] at he; cases he
                    | some h1 =>
                      rw [hm] at he
                      simp only at he
                      obtain ⟨hs1, hk1, hb1⟩ := IH.mh cf pol h h1 o v hb hsep ho hm
                      obtain ⟨hs2, hk2, hb2⟩ := IH.mi cf pol h1 h' to (i + 1) r hb1 hs1 hto he
                      exact ⟨hs2, hk1.trans S hk2, hb2⟩
                  · exact store he

end Ucfg.Forest
