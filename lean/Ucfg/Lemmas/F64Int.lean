import Ucfg.Base.F64
/-!
  Integers below 2^53 are exactly representable: `decode (ofInt i)` is a finite value whose truncation is `i`.
-/
namespace Ucfg.F64

theorem bitLen_bounds (m : Nat) (hm : m ≠ 0) : 2 ^ (bitLen m - 1) ≤ m ∧ m < 2 ^ bitLen m ∧ 1 ≤ bitLen m := by
  unfold bitLen
  rw [if_neg hm]
  refine ⟨?_, ?_, by omega⟩
  · simpa using Nat.log2_self_le hm
  · exact Nat.lt_log2_self

theorem bitLen_le_of_lt (m k : Nat) (hm : m ≠ 0) (h : m < 2 ^ k) : bitLen m ≤ k := by
  unfold bitLen
  rw [if_neg hm]
  have := (Nat.log2_lt hm).mpr h
  omega

/-- the normalised mantissa of a non-zero m < 2^53 -/
def normMant (m : Nat) : Nat := m * 2 ^ (53 - bitLen m)

theorem normMant_bounds (m : Nat) (hm : m ≠ 0) (h : m < 2 ^ 53) : 2 ^ 52 ≤ normMant m ∧ normMant m < 2 ^ 53 := by
  have ⟨h1, h2, h3⟩ := bitLen_bounds m hm
  have hL := bitLen_le_of_lt m 53 hm h
  unfold normMant
  constructor
  · calc 2 ^ 52 = 2 ^ (bitLen m - 1) * 2 ^ (53 - bitLen m) := by
          rw [← Nat.pow_add]; congr 1; omega
      _ ≤ m * 2 ^ (53 - bitLen m) := Nat.mul_le_mul_right _ h1
  · calc m * 2 ^ (53 - bitLen m) < 2 ^ bitLen m * 2 ^ (53 - bitLen m) :=
          Nat.mul_lt_mul_of_pos_right h2 (Nat.pow_pos (by decide))
      _ = 2 ^ 53 := by rw [← Nat.pow_add]; congr 1; omega

theorem roundPos_small (m : Nat) (hm : m ≠ 0) (h : m < 2 ^ 53) :
    roundPos 53 (-1074) m 0 = (normMant m, (bitLen m : Int) - 53) := by
  have ⟨_, _, h3⟩ := bitLen_bounds m hm
  have hL := bitLen_le_of_lt m 53 hm h
  have ⟨nb1, nb2⟩ := normMant_bounds m hm h
  unfold roundPos
  simp only []
  have hq0 : (0 : Int) + (bitLen m : Int) - ((53 : Nat) : Int) = (bitLen m : Int) - 53 := by omega
  rw [hq0]
  have hq : ¬ ((bitLen m : Int) - 53 < -1074) := by omega
  rw [if_neg hq]
  have hsh : (bitLen m : Int) - 53 - 0 ≤ 0 := by omega
  rw [if_pos hsh]
  have hto : (-((bitLen m : Int) - 53 - 0)).toNat = 53 - bitLen m := by omega
  rw [hto]
  have hne : ¬ (m * pow2 (53 - bitLen m) = pow2 53) := by
    unfold pow2; unfold normMant at nb2; omega
  rw [if_neg hne]
  rfl

theorem decode_encode_normal (neg : Bool) (m : Nat) (e : Int) (h1 : 2 ^ 52 ≤ m) (h2 : m < 2 ^ 53)
    (he1 : -1074 ≤ e) (he2 : e + 1075 < 2047) :
    decode (encode64 neg m e) = .fin neg m e := by
  unfold encode64
  simp only []
  have hm : ¬ m < 2 ^ 52 := by omega
  rw [if_neg hm]
  have hbe : ¬ (e + 1075 ≥ 2047) := by omega
  rw [if_neg hbe]
  obtain ⟨be, hbe'⟩ : ∃ be : Nat, e + 1075 = (be : Int) := ⟨(e + 1075).toNat, by omega⟩
  rw [hbe']
  simp only [Int.toNat_natCast]
  have hbe1 : 1 ≤ be := by omega
  have hbe2 : be < 2047 := by omega
  obtain ⟨fr, hfr⟩ : ∃ fr, m = 2 ^ 52 + fr := ⟨m - 2 ^ 52, by omega⟩
  have hfr2 : fr < 2 ^ 52 := by omega
  subst hfr
  have hsub : 2 ^ 52 + fr - 2 ^ 52 = fr := by omega
  rw [hsub]
  unfold decode
  cases neg with
  | false =>
    simp only [Bool.false_eq_true, if_false]
    have a1 : (0 + be * 2 ^ 52 + fr) / 2 ^ 63 % 2 = 0 := by omega
    have a2 : (0 + be * 2 ^ 52 + fr) / 2 ^ 52 % 2048 = be := by omega
    have a3 : (0 + be * 2 ^ 52 + fr) % 2 ^ 52 = fr := by omega
    simp only [a1, a2, a3]
    have : (be == 2047) = false := by simp; omega
    have hz : (be == 0) = false := by simp; omega
    simp [this, hz]
    omega
  | true =>
    simp only [if_true]
    have a1 : (2 ^ 63 + be * 2 ^ 52 + fr) / 2 ^ 63 % 2 = 1 := by omega
    have a2 : (2 ^ 63 + be * 2 ^ 52 + fr) / 2 ^ 52 % 2048 = be := by omega
    have a3 : (2 ^ 63 + be * 2 ^ 52 + fr) % 2 ^ 52 = fr := by omega
    simp only [a1, a2, a3]
    have : (be == 2047) = false := by simp; omega
    have hz : (be == 0) = false := by simp; omega
    simp [this, hz]
    omega

/-- an integer of magnitude below 2^53 is exactly representable -/
theorem decode_ofInt (i : Int) (h0 : i ≠ 0) (h : i.natAbs < 2 ^ 53) :
    decode (ofInt i) = .fin (decide (i < 0)) (normMant i.natAbs) ((bitLen i.natAbs : Int) - 53) := by
  have hm : i.natAbs ≠ 0 := by omega
  have ⟨_, _, h3⟩ := bitLen_bounds _ hm
  have hL := bitLen_le_of_lt _ 53 hm h
  have ⟨nb1, nb2⟩ := normMant_bounds _ hm h
  unfold ofInt ofDyadic
  rw [if_neg hm, roundPos_small _ hm h]
  simp only []
  exact decode_encode_normal _ _ _ nb1 nb2 (by omega) (by omega)

theorem truncMag_normMant (m : Nat) (hm : m ≠ 0) (h : m < 2 ^ 53) :
    truncMag (normMant m) ((bitLen m : Int) - 53) = m := by
  have hL := bitLen_le_of_lt m 53 hm h
  unfold truncMag normMant pow2
  by_cases he : (bitLen m : Int) - 53 ≥ 0
  · rw [if_pos he]
    have : bitLen m = 53 := by omega
    simp [this]
  · rw [if_neg he]
    have hto : (-((bitLen m : Int) - 53)).toNat = 53 - bitLen m := by omega
    rw [hto]
    exact Nat.mul_div_cancel _ (Nat.pow_pos (by decide))

theorem decode_ofInt_zero : decode (ofInt 0) = .fin false 0 (-1074) := by decide

end Ucfg.F64
