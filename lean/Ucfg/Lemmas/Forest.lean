import Ucfg.Model.Forest
/-!
  Lemmas about the identity-level model: allocation only appends, copies are made of fresh nodes.
-/
namespace Ucfg.Forest

/-- no node of the block `t` points below `base` -/
def FreshNodes (base : Nat) (t : List Node) : Prop := ∀ nd ∈ t, ∀ c ∈ nd.body.children, base ≤ c

theorem FreshNodes.append {base : Nat} {t1 t2 : List Node} (h1 : FreshNodes base t1) (h2 : FreshNodes base t2) :
    FreshNodes base (t1 ++ t2) := by
  intro nd hnd c hc
  rcases List.mem_append.mp hnd with h | h
  · exact h1 nd h c hc
  · exact h2 nd h c hc

/-- what a copying function has to satisfy: it only appends, returns the first new id, gives the copy the requested
context and builds it from nodes that do not point below `base` -/
def Good (f : Heap → Id → Option Id → String → Option (Heap × Id)) (base : Nat) : Prop :=
  ∀ (h : Heap) (c : Id) (p : Option Id) (fl : String) (h' : Heap) (id' : Id),
    base ≤ h.length → f h c p fl = some (h', id') →
    ∃ t, h' = h ++ t ∧ id' = h.length ∧ FreshNodes base t ∧
      (∃ b, h'[id']? = some ⟨p, fl, b⟩)

theorem cpyList_good {κ : Type} (f : Heap → Id → Option Id → String → Option (Heap × Id)) (base me : Nat)
    (hf : Good f base) :
    ∀ (cs : List (κ × Id)) (h h2 : Heap) (cs' : List (κ × Id)), base ≤ h.length →
      cpyList f me h cs = some (h2, cs') →
      ∃ t, h2 = h ++ t ∧ FreshNodes base t ∧ (∀ kc ∈ cs', base ≤ kc.2) ∧ cs'.map (·.1) = cs.map (·.1) := by
  intro cs
  induction cs with
  | nil =>
    intro h h2 cs' _ he
    simp only [cpyList, Option.some.injEq, Prod.mk.injEq] at he
    obtain ⟨rfl, rfl⟩ := he
    refine ⟨[], by simp, ?_, ?_, rfl⟩
    · intro nd hnd; cases hnd
    · intro kc hkc; cases hkc
  | cons kc r ih =>
    intro h h2 cs' hb he
    obtain ⟨k, c⟩ := kc
    simp only [cpyList] at he
    cases hn : h[c]? with
    | none => simp [hn] at he
    | some n =>
      simp only [hn] at he
      cases hc : f h c (some me) n.field with
      | none => simp [hc] at he
      | some r1 =>
        obtain ⟨h1, c'⟩ := r1
        simp only [hc] at he
        cases hr : cpyList f me h1 r with
        | none => simp [hr] at he
        | some r2 =>
          obtain ⟨h2', r'⟩ := r2
          simp only [hr, Option.some.injEq, Prod.mk.injEq] at he
          obtain ⟨rfl, rfl⟩ := he
          obtain ⟨t1, rfl, hid, hfr1, _⟩ := hf h c (some me) n.field h1 c' hb hc
          have hb1 : base ≤ (h ++ t1).length := by simp; omega
          obtain ⟨t2, rfl, hfr2, hids, hkeys⟩ := ih (h ++ t1) h2' r' hb1 hr
          refine ⟨t1 ++ t2, by simp, hfr1.append hfr2, ?_, ?_⟩
          · intro kc hkc
            rcases List.mem_cons.mp hkc with h | h
            · subst h; simp only; rw [hid]; exact hb
            · exact hids kc h
          · simp [hkeys]

theorem cpy_good : ∀ (n base : Nat), Good (cpy n) base := by
  intro n
  induction n with
  | zero => intro base h c p fl h' id' _ he; simp [cpy] at he
  | succ n ih =>
    intro base h id p fl h' id' hb he
    simp only [cpy] at he
    cases hn : h[id]? with
    | none => simp [hn] at he
    | some nd =>
      obtain ⟨np, nf, nb⟩ := nd
      cases nb with
      | prim k v =>
        simp only [hn, Option.some.injEq, Prod.mk.injEq] at he
        obtain ⟨rfl, rfl⟩ := he
        refine ⟨[⟨p, fl, .prim k v⟩], rfl, rfl, ?_, ⟨.prim k v, by simp⟩⟩
        intro nd hnd c hc
        simp only [List.mem_singleton] at hnd
        subst hnd
        simp [Body.children] at hc
      | sub d a =>
        simp only [hn] at he
        cases h1e : cpyList (cpy n) h.length (h ++ [⟨p, fl, .sub [] []⟩]) d with
        | none => simp [h1e] at he
        | some r1 =>
          obtain ⟨h2, d'⟩ := r1
          simp only [h1e] at he
          cases h2e : cpyList (cpy n) h.length h2 (a.map (fun c => ((), c))) with
          | none => simp [h2e] at he
          | some r2 =>
            obtain ⟨h3, a'⟩ := r2
            simp only [h2e, Option.some.injEq, Prod.mk.injEq] at he
            obtain ⟨rfl, rfl⟩ := he
            have hb1 : base ≤ (h ++ [(⟨p, fl, .sub [] []⟩ : Node)]).length := by simp; omega
            obtain ⟨t1, rfl, hfr1, hids1, _⟩ := cpyList_good (cpy n) base h.length (ih base) d _ h2 d' hb1 h1e
            have hb2 : base ≤ (h ++ [(⟨p, fl, .sub [] []⟩ : Node)] ++ t1).length := by simp; omega
            obtain ⟨t2, rfl, hfr2, hids2, _⟩ := cpyList_good (cpy n) base h.length (ih base) _ _ h3 a' hb2 h2e
            refine ⟨⟨p, fl, .sub d' (a'.map (·.2))⟩ :: (t1 ++ t2), ?_, rfl, ?_, ?_⟩
            · have : h ++ [(⟨p, fl, .sub [] []⟩ : Node)] ++ t1 ++ t2 = h ++ ((⟨p, fl, .sub [] []⟩ : Node) :: (t1 ++ t2)) := by simp
              rw [this, List.set_append]
              simp
            · intro nd hnd c hc
              rcases List.mem_cons.mp hnd with h0 | h0
              · subst h0
                simp only [Body.children, List.mem_append, List.mem_map] at hc
                rcases hc with ⟨kc, hkc, rfl⟩ | ⟨kc, hkc, rfl⟩
                · exact hids1 kc hkc
                · exact hids2 kc hkc
              · exact (hfr1.append hfr2) nd h0 c hc
            · refine ⟨.sub d' (a'.map (·.2)), ?_⟩
              have : h ++ [(⟨p, fl, .sub [] []⟩ : Node)] ++ t1 ++ t2 = h ++ ((⟨p, fl, .sub [] []⟩ : Node) :: (t1 ++ t2)) := by simp
              rw [this, List.set_append]
              simp

end Ucfg.Forest

namespace Ucfg.Forest

/-! ### frame lemmas for the in-place writes -/

theorem setBody_length (h : Heap) (id : Id) (b : Body) : (setBody h id b).length = h.length := by
  unfold setBody; split <;> simp

theorem setBody_other (h : Heap) (id i : Id) (b : Body) (hne : i ≠ id) : (setBody h id b)[i]? = h[i]? := by
  unfold setBody
  split
  · rw [List.getElem?_set_ne (Ne.symm hne)]
  · rfl

theorem setBody_same (h : Heap) (id : Id) (b : Body) (n : Node) (hn : h[id]? = some n) :
    (setBody h id b)[id]? = some { n with body := b } := by
  unfold setBody
  rw [hn]
  simp only
  have hlt : id < h.length := by
    rcases Nat.lt_or_ge id h.length with hl | hl
    · exact hl
    · rw [List.getElem?_eq_none hl] at hn; cases hn
  rw [List.getElem?_set_self hlt]

theorem setField_length (h : Heap) (id : Id) (f : String) : (setField h id f).length = h.length := by
  unfold setField; split <;> simp

theorem setField_other (h : Heap) (id i : Id) (f : String) (hne : i ≠ id) : (setField h id f)[i]? = h[i]? := by
  unfold setField
  split
  · rw [List.getElem?_set_ne (Ne.symm hne)]
  · rfl

theorem setField_same (h : Heap) (id : Id) (f : String) (n : Node) (hn : h[id]? = some n) :
    (setField h id f)[id]? = some { n with field := f } := by
  unfold setField
  rw [hn]
  simp only
  have hlt : id < h.length := by
    rcases Nat.lt_or_ge id h.length with hl | hl
    · exact hl
    · rw [List.getElem?_eq_none hl] at hn; cases hn
  rw [List.getElem?_set_self hlt]

theorem getSub_lt {h : Heap} {id : Id} {r} (hg : getSub h id = some r) : id < h.length := by
  unfold getSub at hg
  rcases Nat.lt_or_ge id h.length with hl | hl
  · exact hl
  · rw [List.getElem?_eq_none hl] at hg; cases hg

theorem getSub_node {h : Heap} {id : Id} {p f d a} (hg : getSub h id = some (p, f, d, a)) :
    h[id]? = some ⟨p, f, .sub d a⟩ := by
  unfold getSub at hg
  split at hg
  · rename_i p' f' d' a' heq
    simp only [Option.some.injEq, Prod.mk.injEq] at hg
    obtain ⟨rfl, rfl, rfl, rfl⟩ := hg
    exact heq
  · cases hg

theorem getSub_of_node {h : Heap} {id : Id} {p f d a} (hn : h[id]? = some ⟨p, f, .sub d a⟩) :
    getSub h id = some (p, f, d, a) := by
  unfold getSub; rw [hn]

/-- existing nodes survive a copy unchanged -/
theorem cpy_old_nodes {n : Nat} {h h' : Heap} {id id' : Id} {p : Option Id} {f : String}
    (he : cpy n h id p f = some (h', id')) (i : Nat) (nd : Node) (hi : h[i]? = some nd) : h'[i]? = some nd := by
  obtain ⟨t, rfl, _, _, _⟩ := cpy_good n 0 h id p f h' id' (Nat.zero_le _) he
  have hlt : i < h.length := by
    rcases Nat.lt_or_ge i h.length with hl | hl
    · exact hl
    · rw [List.getElem?_eq_none hl] at hi; cases hi
  rw [List.getElem?_append_left hlt]
  exact hi

end Ucfg.Forest

namespace Ucfg.Forest

/-! ### fields.append: copies get the next free indices -/

/-- the element ids `new` of node `to` carry, from position `off` on, their own index and `to` as parent -/
def IndexedFrom (h : Heap) (to : Id) (off : Nat) (new : List Id) : Prop :=
  ∀ j c, new[j]? = some c → ∃ b, h[c]? = some (⟨some to, idxName (off + j), b⟩ : Node)

theorem appendCpy_spec (fuel : Nat) :
    ∀ (src : List Id) (h h' : Heap) (to : Id) (p : Option Id) (f : String) (d : List (String × Id)) (a : List Id),
      getSub h to = some (p, f, d, a) → appendCpy fuel h to src = some h' →
      ∃ new, getSub h' to = some (p, f, d, a ++ new) ∧ new.length = src.length ∧
        IndexedFrom h' to a.length new ∧ (∀ c ∈ new, h.length ≤ c) ∧
        h.length ≤ h'.length ∧ (∀ i nd, i ≠ to → h[i]? = some nd → h'[i]? = some nd) := by
  intro src
  induction src with
  | nil =>
    intro h h' to p f d a hg he
    simp only [appendCpy, Option.some.injEq] at he
    subst he
    refine ⟨[], by simpa using hg, rfl, ?_, ?_, Nat.le_refl _, ?_⟩
    · unfold IndexedFrom; intro j c hj; simp at hj
    · intro c hc; cases hc
    · intro i nd _ hi; exact hi
  | cons c r ih =>
    intro h h' to p f d a hg he
    simp only [appendCpy, hg] at he
    cases hc : cpy fuel h c (some to) (idxName a.length) with
    | none => simp [hc] at he
    | some r1 =>
      obtain ⟨h1, c'⟩ := r1
      simp only [hc] at he
      have hto : to < h.length := getSub_lt hg
      obtain ⟨t, rfl, rfl, _, ⟨b, hb⟩⟩ := cpy_good fuel 0 h c (some to) (idxName a.length) h1 c' (Nat.zero_le _) hc
      have hnode : (h ++ t)[to]? = some ⟨p, f, .sub d a⟩ := by
        rw [List.getElem?_append_left hto]; exact getSub_node hg
      have hg1 : getSub (setBody (h ++ t) to (.sub d (a ++ [h.length]))) to = some (p, f, d, a ++ [h.length]) :=
        getSub_of_node (setBody_same _ _ _ _ hnode)
      obtain ⟨new, hgn, hlen, hidx, hfresh, hle, hframe⟩ := ih _ h' to p f d (a ++ [h.length]) hg1 he
      have hne : h.length ≠ to := Nat.ne_of_gt hto
      refine ⟨h.length :: new, by simpa using hgn, by simp [hlen], ?_, ?_, ?_, ?_⟩
      · unfold IndexedFrom
        intro j x hj
        cases j with
        | zero =>
          simp only [List.getElem?_cons_zero, Option.some.injEq] at hj
          subst hj
          have h1 : (setBody (h ++ t) to (.sub d (a ++ [h.length])))[h.length]? = some ⟨some to, idxName a.length, b⟩ := by
            rw [setBody_other _ _ _ _ hne]; exact hb
          exact ⟨b, by simpa using hframe _ _ hne h1⟩
        | succ j =>
          simp only [List.getElem?_cons_succ] at hj
          obtain ⟨b', hb'⟩ := hidx j x hj
          refine ⟨b', ?_⟩
          have : (a ++ [h.length]).length + j = a.length + (j + 1) := by simp; omega
          rw [this] at hb'
          exact hb'
      · intro x hx
        rcases List.mem_cons.mp hx with rfl | hx
        · exact Nat.le_refl _
        · have := hfresh x hx
          rw [setBody_length] at this
          simp at this; omega
      · rw [setBody_length] at hle; simp at hle; omega
      · intro i nd hne hi
        apply hframe i nd hne
        rw [setBody_other _ _ _ _ hne]
        have hlt : i < h.length := by
          rcases Nat.lt_or_ge i h.length with hl | hl
          · exact hl
          · rw [List.getElem?_eq_none hl] at hi; cases hi
        rw [List.getElem?_append_left hlt]; exact hi

/-! ### fields.delAt: the elements behind the removed one are renumbered -/

theorem renumber_length : ∀ (cs : List Id) (h : Heap) (j : Nat), (renumber h cs j).length = h.length := by
  intro cs
  induction cs with
  | nil => intro h j; rfl
  | cons c r ih => intro h j; simp [renumber, ih, setField_length]

theorem renumber_other : ∀ (cs : List Id) (h : Heap) (j i : Nat), i ∉ cs → (renumber h cs j)[i]? = h[i]? := by
  intro cs
  induction cs with
  | nil => intro h j i _; rfl
  | cons c r ih =>
    intro h j i hi
    simp only [List.mem_cons, not_or] at hi
    simp only [renumber]
    rw [ih _ _ _ hi.2, setField_other _ _ _ _ hi.1]

theorem renumber_spec : ∀ (cs : List Id) (h : Heap) (j : Nat), cs.Nodup → (∀ c ∈ cs, c < h.length) →
    ∀ k c, cs[k]? = some c → ∃ nd : Node, h[c]? = some nd ∧ (renumber h cs j)[c]? = some ({ nd with field := idxName (j + k) } : Node) := by
  intro cs
  induction cs with
  | nil => intro h j _ _ k c hk; simp at hk
  | cons c0 r ih =>
    intro h j hnd hlt k c hk
    simp only [List.nodup_cons] at hnd
    simp only [renumber]
    cases k with
    | zero =>
      simp only [List.getElem?_cons_zero, Option.some.injEq] at hk
      subst hk
      have hl := hlt c0 (by simp)
      obtain ⟨nd, hnd0⟩ : ∃ nd, h[c0]? = some nd := ⟨h[c0], by simp [List.getElem?_eq_getElem hl]⟩
      refine ⟨nd, hnd0, ?_⟩
      rw [renumber_other _ _ _ _ hnd.1, setField_same _ _ _ _ hnd0]
      simp
    | succ k =>
      simp only [List.getElem?_cons_succ] at hk
      have hmem : c ∈ r := List.mem_of_getElem? hk
      have hne : c ≠ c0 := fun e => hnd.1 (e ▸ hmem)
      have hlt' : ∀ x ∈ r, x < (setField h c0 (idxName j)).length := by
        intro x hx; rw [setField_length]; exact hlt x (by simp [hx])
      obtain ⟨nd, hnd1, hres⟩ := ih (setField h c0 (idxName j)) (j + 1) hnd.2 hlt' k c hk
      rw [setField_other _ _ _ _ hne] at hnd1
      refine ⟨nd, hnd1, ?_⟩
      rw [hres]
      have : j + 1 + k = j + (k + 1) := by omega
      rw [this]

/-! ### context.path along well-linked nodes -/

/-- `ids` is a descending chain below `root`: each node stores the previous one as parent and `name` as field -/
def Chain (h : Heap) : Id → List (String × Id) → Prop
  | _, [] => True
  | up, (name, id) :: r => (∃ b, h[id]? = some (⟨some up, name, b⟩ : Node)) ∧ name ≠ "" ∧ Chain h id r

theorem storedPath_chain (h : Heap) :
    ∀ (links : List (String × Id)) (n : Nat) (up : Id) (pre : List String),
      (∀ m, links.length ≤ m → storedPath (m - links.length + n) h up = pre) →
      Chain h up links → ∀ m, links.length ≤ m →
      storedPath (m + n) h ((links.getLast?.map (·.2)).getD up) = pre ++ links.map (·.1) := by
  intro links
  induction links with
  | nil =>
    intro n up pre hup _ m hm
    simpa using hup m hm
  | cons l r ih =>
    intro n up pre hup hch m hm
    obtain ⟨name, id⟩ := l
    obtain ⟨⟨b, hnode⟩, hne, hrest⟩ := hch
    have hid : ∀ m', r.length ≤ m' → storedPath (m' - r.length + (n + 1)) h id = pre ++ [name] := by
      intro m' hm'
      have e : m' - r.length + (n + 1) = (m' - r.length + n) + 1 := by omega
      rw [e]
      simp only [storedPath, hnode]
      have hf : (name == "") = false := by simpa using hne
      rw [hf]
      simp only [Bool.false_eq_true, if_false]
      have := hup (m' - r.length + (r.length + 1)) (by simp only [List.length_cons]; omega)
      simp only [List.length_cons] at this
      have e2 : m' - r.length + (r.length + 1) - (r.length + 1) + n = m' - r.length + n := by omega
      rw [e2] at this
      rw [this]
    simp only [List.length_cons] at hm
    have := ih (n + 1) id (pre ++ [name]) hid hrest (m - 1) (by omega)
    have e3 : m - 1 + (n + 1) = m + n := by omega
    rw [e3] at this
    cases r with
    | nil => simpa using this
    | cons x xs =>
      simp only [List.getLast?_cons_cons, List.map_cons, List.append_assoc, List.singleton_append] at this ⊢
      exact this

end Ucfg.Forest
