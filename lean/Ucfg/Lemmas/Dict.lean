import Ucfg.Model.Merge
/-
  Helper lemmas about association-list dictionaries and cfgSub.cpy.
-/
namespace Ucfg

@[simp] theorem dget_nil (k : String) : dget [] k = none := rfl

theorem dget_dset_same (d : Dict) (k : String) (v : Val) : dget (dset d k v) k = some v := by
  induction d with
  | nil => simp [dset, dget]
  | cons kv r ih =>
    obtain ⟨k', v'⟩ := kv
    simp only [dset]
    by_cases h1 : k = k'
    · subst h1; simp [dget]
    · simp only [h1, if_false]
      by_cases h2 : k < k'
      · simp [h2, dget]
      · simp only [h2, if_false, dget]
        have : ¬ k' = k := fun e => h1 e.symm
        simp [this, ih]

theorem dget_dset_other (d : Dict) (k k' : String) (v : Val) (h : k ≠ k') :
    dget (dset d k v) k' = dget d k' := by
  induction d with
  | nil => simp [dset, dget, h]
  | cons kv r ih =>
    obtain ⟨k2, v2⟩ := kv
    simp only [dset]
    by_cases h1 : k = k2
    · subst h1; simp [dget, h]
    · simp only [h1, if_false]
      by_cases h2 : k < k2
      · simp [h2, dget, h]
      · simp only [h2, if_false, dget]
        by_cases h3 : k2 = k'
        · simp [h3]
        · simp [h3, ih]

/-- keys of a dictionary -/
def dkeysOf (d : Dict) : List String := d.map Prod.fst

theorem dget_none_of_not_mem (d : Dict) (k : String) (h : k ∉ dkeysOf d) : dget d k = none := by
  induction d with
  | nil => rfl
  | cons kv r ih =>
    obtain ⟨k2, v2⟩ := kv
    simp only [dkeysOf, List.map_cons, List.mem_cons, not_or] at h
    simp only [dget]
    have : ¬ k2 = k := fun e => h.1 e.symm
    simp only [this, if_false]
    exact ih h.2

@[simp] theorem cpyA_length (a : List Val) : (cpyA a).length = a.length := by
  induction a with
  | nil => rfl
  | cons v r ih => simp [cpyA, ih]

@[simp] theorem cpyD_length (d : Dict) : (cpyD d).length = d.length := by
  induction d with
  | nil => rfl
  | cons kv r ih => obtain ⟨k, v⟩ := kv; simp [cpyD, ih]

end Ucfg
