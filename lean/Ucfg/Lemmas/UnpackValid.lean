import Ucfg.Model.Unpack
/-
  Lemmas for the nested lift of C04: what the typed Unpack model returns passes the recursive validation
  (`recValidate`, the transcription of tryRecursiveValidate), for target types built from primitive kinds,
  structs (without inline fields), pointers, slices and fixed-size arrays, nested to any depth.
-/
namespace Ucfg
open Outcome

/-! ### the type universe of the theorem and well-shaped target values -/

mutual
/-- primitive kinds, structs without inline fields, pointers, slices and arrays of such -/
def Ty.plain : Ty → Bool
  | .prim _ => true
  | .ptr t => t.plain
  | .slice t => t.plain
  | .array _ t => t.plain
  | .map t => t.plain
  | .strct fs => plainFields fs
  | _ => false
def plainFields : List (String × String × String × Ty) → Bool
  | [] => true
  | (_, tag, _, t) :: r => !(parseTags tag).2.squash && t.plain && plainFields r
end

/-- every later key is greater -/
def keysBelow (k : String) (m : List (String × GoVal)) : Bool := m.all (fun e => decide (k < e.1))

/-- the entries of a map value are kept sorted by key, without duplicates (the canonical form of a Go map) -/
def keysSorted : List (String × GoVal) → Bool
  | [] => true
  | (k, _) :: r => keysBelow k r && keysSorted r

mutual
/-- the value has the shape of the type (what reflect guarantees for a Go value of that type) -/
def fits : Ty → GoVal → Bool
  | .prim _, .scalar _ => true
  | .ptr _, .ptr none => true
  | .ptr t, .ptr (some x) => fits t x
  | .slice _, .slice none => true
  | .slice t, .slice (some l) => fitsAll t l
  | .array _ t, .array l => fitsAll t l
  | .map _, .map none => true
  | .map t, .map (some m) => fitsVals t m && keysSorted m
  | .strct fs, .strct xs => fitsFields fs xs
  | _, _ => false
def fitsVals : Ty → List (String × GoVal) → Bool
  | _, [] => true
  | t, (_, x) :: r => fits t x && fitsVals t r
def fitsAll : Ty → List GoVal → Bool
  | _, [] => true
  | t, x :: r => fits t x && fitsAll t r
def fitsFields : List (String × String × String × Ty) → List GoVal → Bool
  | [], [] => true
  | (_, _, _, t) :: fr, x :: xr => fits t x && fitsFields fr xr
  | _, _ => false
end

def Ty.isStrct : Ty → Bool
  | .strct _ => true
  | _ => false

def Ty.isMap : Ty → Bool
  | .map _ => true
  | _ => false

/-! ### Outcome plumbing -/

theorem bind_eq_ok {α β : Type} {x : Outcome α} {f : α → Outcome β} {r : β}
    (h : (x >>= f) = .ok r) : ∃ a, x = .ok a ∧ f a = .ok r := by
  cases x with
  | ok a => exact ⟨a, rfl, h⟩
  | err e => simp at h
  | panic s => simp at h
  | fuel => simp at h

theorem raiseValidation_ne_ok {α : Type} (e : VErr) (r : α) : (raiseValidation e : Outcome α) ≠ .ok r := by
  simp [raiseValidation]

theorem raise_ne_ok {α : Type} (rs : Reason) (r : α) : (Outcome.raise rs : Outcome α) ≠ .ok r := by
  simp [Outcome.raise]

/-! ### validators on structs and pointers -/

theorem runValidator_strct (std : Stdlib) (t : VTag) (xs : List GoVal) : runValidator std t (.strct xs) = none := by
  unfold runValidator
  split
  · simp [validateNonZero, GoVal.isNilIface, GoVal.chase, isZeroNum, validateNonEmpty]
  · split
    · simp [validatePositive]
    · split
      · simp [validateBound]
      · split
        · simp [validateBound]
        · split
          · simp [validateRequired, GoVal.isNilIface, isZeroNum, validateNonEmpty]
          · rfl

theorem runValidators_strct (std : Stdlib) (vs : List VTag) (xs : List GoVal) :
    runValidators std vs (.strct xs) = none := by
  unfold runValidators
  induction vs with
  | nil => rfl
  | cons t r _ => simp [List.findSome?, runValidator_strct]

theorem runValidators_nil (std : Stdlib) (v : GoVal) : runValidators std [] v = none := rfl

/-- the validators look through a non-nil pointer only for `nonzero`, and then agree with the pointee -/
theorem runValidator_ptr_some (std : Stdlib) (t : VTag) (x : GoVal) (h : runValidator std t x = none) :
    runValidator std t (.ptr (some x)) = none := by
  unfold runValidator at h ⊢
  split
  · rename_i hn
    simp only [hn, if_true] at h
    -- nonzero: decided on the chased value
    unfold validateNonZero at h ⊢
    simp only [GoVal.isNilIface, Bool.false_eq_true, if_false, GoVal.chase]
    cases hz : isZeroNum x.chase with
    | some z =>
      simp only
      -- the pointee's verdict comes from the same number
      cases x with
      | scalar s =>
        cases s with
        | dur d =>
          simp only [GoVal.isNilIface, Bool.false_eq_true, if_false] at h
          simp only [GoVal.chase, isZeroNum, Option.some.injEq] at hz
          subst hz
          exact h
        | _ =>
          simp only [GoVal.isNilIface, Bool.false_eq_true, if_false, hz] at h
          exact h
      | iface d =>
        cases d with
        | none => simp [GoVal.chase, isZeroNum] at hz
        | some d =>
          simp only [GoVal.isNilIface, Bool.false_eq_true, if_false, hz] at h
          exact h
      | _ =>
        simp only [GoVal.isNilIface, Bool.false_eq_true, if_false, hz] at h
        exact h
    | none => simp [validateNonEmpty]
  · split
    · simp [validatePositive]
    · split
      · simp [validateBound]
      · split
        · simp [validateBound]
        · split
          · simp [validateRequired, GoVal.isNilIface, isZeroNum, validateNonEmpty]
          · rfl

theorem runValidators_ptr_some (std : Stdlib) (vs : List VTag) (x : GoVal) (h : runValidators std vs x = none) :
    runValidators std vs (.ptr (some x)) = none := by
  unfold runValidators at h ⊢
  induction vs with
  | nil => rfl
  | cons t r ih =>
    simp only [List.findSome?] at h ⊢
    cases ht : runValidator std t x with
    | some e => rw [ht] at h; simp at h
    | none =>
      rw [ht] at h
      simp only at h
      rw [runValidator_ptr_some std t x ht]
      exact ih h

/-! ### one step of recValidate -/

theorem recValidate_split (std : Stdlib) (o : Opts) (ty : Ty) (vs : List VTag) (v : GoVal) :
    recValidate std o ty vs v = none ↔ (runValidators std vs v = none ∧ recValidate std o ty [] v = none) := by
  constructor
  · intro h
    unfold recValidate at h
    cases hr : runValidators std vs v with
    | some e => rw [hr] at h; simp at h
    | none =>
      rw [hr] at h
      refine ⟨rfl, ?_⟩
      unfold recValidate
      simp only [runValidators_nil]
      exact h
  · intro ⟨h1, h2⟩
    unfold recValidate at h2 ⊢
    simp only [runValidators_nil] at h2
    rw [h1]
    exact h2

theorem recValidate_prim' (std : Stdlib) (o : Opts) (k : Kind) (v : GoVal) :
    recValidate std o (.prim k) [] v = none := by
  unfold recValidate
  simp only [runValidators_nil]

theorem recValidate_ptr_none (std : Stdlib) (o : Opts) (t : Ty) : recValidate std o (.ptr t) [] (.ptr none) = none := by
  unfold recValidate
  simp only [runValidators_nil]

theorem recValidate_ptr_some (std : Stdlib) (o : Opts) (t : Ty) (x : GoVal) :
    recValidate std o (.ptr t) [] (.ptr (some x)) = recValidate std o t [] x := by
  conv => lhs; unfold recValidate
  simp only [runValidators_nil]

theorem recValidate_strct (std : Stdlib) (o : Opts) (fs : List (String × String × String × Ty)) (xs : List GoVal) :
    recValidate std o (.strct fs) [] (.strct xs) = recValidateFields std o fs xs := by
  conv => lhs; unfold recValidate
  simp only [runValidators_nil]

theorem recValidate_slice (std : Stdlib) (o : Opts) (t : Ty) (l : List GoVal) :
    recValidate std o (.slice t) [] (.slice (some l)) = recValidateList std o t l := by
  conv => lhs; unfold recValidate
  simp only [runValidators_nil]

theorem recValidate_slice_none (std : Stdlib) (o : Opts) (t : Ty) :
    recValidate std o (.slice t) [] (.slice none) = none := by
  unfold recValidate
  simp only [runValidators_nil]

theorem recValidate_array (std : Stdlib) (o : Opts) (n : Nat) (t : Ty) (l : List GoVal) :
    recValidate std o (.array n t) [] (.array l) = recValidateList std o t l := by
  conv => lhs; unfold recValidate
  simp only [runValidators_nil]

theorem recValidateList_nil (std : Stdlib) (o : Opts) (t : Ty) : recValidateList std o t [] = none := by
  unfold recValidateList; rfl

theorem recValidateList_cons (std : Stdlib) (o : Opts) (t : Ty) (x : GoVal) (r : List GoVal) :
    recValidateList std o t (x :: r) = none ↔ (recValidate std o t [] x = none ∧ recValidateList std o t r = none) := by
  conv => lhs; unfold recValidateList
  cases h : recValidate std o t [] x with
  | some e => simp
  | none => simp

theorem recValidateList_all (std : Stdlib) (o : Opts) (t : Ty) (l : List GoVal) :
    recValidateList std o t l = none ↔ ∀ x ∈ l, recValidate std o t [] x = none := by
  induction l with
  | nil => simp [recValidateList_nil]
  | cons x r ih =>
    rw [recValidateList_cons, ih]
    simp

/-! ### the validation does not depend on the options (accessField reads them for the merge policy only) -/

theorem accessField_other (o o' : Opts) (g tag vtag : String) :
    (accessField o g tag vtag = .ok none → accessField o' g tag vtag = .ok none) ∧
    (∀ fi, accessField o g tag vtag = .ok (some fi) →
      ∃ fi', accessField o' g tag vtag = .ok (some fi') ∧ fi'.validators = fi.validators ∧ fi'.tag = fi.tag ∧ fi'.name = fi.name) ∧
    (∀ e, accessField o g tag vtag = .err e → accessField o' g tag vtag = .err e) := by
  unfold accessField
  by_cases hx : exported g = true
  · simp only [hx, Bool.not_true, Bool.false_eq_true, if_false]
    by_cases hi : (parseTags tag).2.ignore = true
    · simp [hi]
    · simp only [hi, Bool.false_eq_true, if_false]
      cases hp : parseValidatorTags vtag with
      | none => simp
      | some vs =>
        simp only
        refine ⟨by simp, ?_, by simp⟩
        intro fi hfi
        simp only [Outcome.ok.injEq, Option.some.injEq] at hfi
        subst hfi
        exact ⟨_, rfl, rfl, rfl, rfl⟩
  · simp [hx]

theorem recValidateList_congr (std : Stdlib) (o o' : Opts) (t : Ty)
    (h : ∀ x, recValidate std o t [] x = recValidate std o' t [] x) :
    ∀ l, recValidateList std o t l = recValidateList std o' t l := by
  intro l
  induction l with
  | nil => simp [recValidateList_nil]
  | cons x r ih =>
    unfold recValidateList
    rw [h x, ih]

theorem recValidateMap_congr (std : Stdlib) (o o' : Opts) (t : Ty)
    (h : ∀ x, recValidate std o t [] x = recValidate std o' t [] x) :
    ∀ m, recValidateMap std o t m = recValidateMap std o' t m := by
  intro m
  induction m with
  | nil => unfold recValidateMap; rfl
  | cons kx r ih =>
    obtain ⟨k, x⟩ := kx
    unfold recValidateMap
    rw [h x, ih]

mutual
theorem recValidate_opts (std : Stdlib) (o o' : Opts) : ∀ (ty : Ty) (vs : List VTag) (v : GoVal),
    recValidate std o ty vs v = recValidate std o' ty vs v
  | .ptr t, vs, v => by
    unfold recValidate
    cases runValidators std vs v with
    | some e => rfl
    | none =>
      cases v with
      | ptr p => cases p with
        | none => rfl
        | some x => exact recValidate_opts std o o' t [] x
      | _ => rfl
  | .strct fs, vs, v => by
    unfold recValidate
    cases runValidators std vs v with
    | some e => rfl
    | none =>
      cases v with
      | strct xs => exact recValidateFields_opts std o o' fs xs
      | _ => rfl
  | .map t, vs, v => by
    unfold recValidate
    cases runValidators std vs v with
    | some e => rfl
    | none =>
      cases v with
      | map m => cases m with
        | none => rfl
        | some m => exact recValidateMap_congr std o o' t (fun x => recValidate_opts std o o' t [] x) m
      | _ => rfl
  | .slice t, vs, v => by
    unfold recValidate
    cases runValidators std vs v with
    | some e => rfl
    | none =>
      cases v with
      | slice l => cases l with
        | none => rfl
        | some l => exact recValidateList_congr std o o' t (fun x => recValidate_opts std o o' t [] x) l
      | _ => rfl
  | .array n t, vs, v => by
    unfold recValidate
    cases runValidators std vs v with
    | some e => rfl
    | none =>
      cases v with
      | array l => exact recValidateList_congr std o o' t (fun x => recValidate_opts std o o' t [] x) l
      | _ => rfl
  | .prim k, vs, v => by
    unfold recValidate
    cases runValidators std vs v <;> rfl
  | .regexp, vs, v => by
    unfold recValidate
    cases runValidators std vs v <;> rfl
  | .iface, vs, v => by
    unfold recValidate
    cases runValidators std vs v <;> rfl
  | .config, vs, v => by
    unfold recValidate
    cases runValidators std vs v <;> rfl
  | .unsupported, vs, v => by
    unfold recValidate
    cases runValidators std vs v <;> rfl
  | .badmap, vs, v => by
    unfold recValidate
    cases runValidators std vs v <;> rfl
theorem recValidateFields_opts (std : Stdlib) (o o' : Opts) : ∀ (fs : List (String × String × String × Ty)) (xs : List GoVal),
    recValidateFields std o fs xs = recValidateFields std o' fs xs
  | [], xs => by unfold recValidateFields; rfl
  | (g, tag, vtag, t) :: fr, [] => by unfold recValidateFields; rfl
  | (g, tag, vtag, t) :: fr, x :: xr => by
    unfold recValidateFields
    have hacc := accessField_other o o' g tag vtag
    cases ha : accessField o g tag vtag with
    | ok fio =>
      cases fio with
      | none =>
        rw [hacc.1 ha]
        exact recValidateFields_opts std o o' fr xr
      | some fi =>
        obtain ⟨fi', hfi', hv, _, _⟩ := hacc.2.1 fi ha
        rw [hfi']
        simp only
        rw [hv, recValidate_opts std o o' t fi.validators x, recValidateFields_opts std o o' fr xr]
    | err e => rw [hacc.2.2 e ha]
    | panic s => simp [accessField] at ha; split at ha <;> (try split at ha) <;> (try split at ha) <;> simp at ha
    | fuel => simp [accessField] at ha; split at ha <;> (try split at ha) <;> (try split at ha) <;> simp at ha
end

/-! ### zero values have the shape of their type -/

theorem fitsAll_replicate (t : Ty) (x : GoVal) (h : fits t x = true) : ∀ n, fitsAll t (List.replicate n x) = true := by
  intro n
  induction n with
  | zero => simp [fitsAll]
  | succ k ih => simp [List.replicate_succ, fitsAll, h, ih]

theorem fitsAll_all (t : Ty) (l : List GoVal) : fitsAll t l = true ↔ ∀ x ∈ l, fits t x = true := by
  induction l with
  | nil => simp [fitsAll]
  | cons x r ih => simp [fitsAll, ih]

mutual
theorem fits_zeroOf : ∀ (t : Ty), t.plain = true → fits t (zeroOf t) = true
  | .prim k, _ => by cases k <;> simp [zeroOf, fits]
  | .ptr t, _ => by simp [zeroOf, fits]
  | .slice t, _ => by simp [zeroOf, fits]
  | .array n t, h => by
    simp only [Ty.plain] at h
    simp only [zeroOf, fits]
    exact fitsAll_replicate t _ (fits_zeroOf t h) n
  | .strct fs, h => by
    simp only [Ty.plain] at h
    simp only [zeroOf, fits]
    exact fitsFields_zero fs h
  | .regexp, h => by simp [Ty.plain] at h
  | .iface, h => by simp [Ty.plain] at h
  | .map _, _ => by simp [zeroOf, fits]
  | .config, h => by simp [Ty.plain] at h
  | .unsupported, h => by simp [Ty.plain] at h
  | .badmap, h => by simp [Ty.plain] at h
theorem fitsFields_zero : ∀ (fs : List (String × String × String × Ty)), plainFields fs = true →
    fitsFields fs (zeroFields fs) = true
  | [], _ => by simp [zeroFields, fitsFields]
  | (g, tag, vtag, t) :: r, h => by
    simp only [plainFields, Bool.and_eq_true] at h
    simp only [zeroFields, fitsFields, Bool.and_eq_true]
    exact ⟨fits_zeroOf t h.1.2, fitsFields_zero r h.2⟩
end

/-! ### map values: sorted association lists -/

theorem fitsVals_all (t : Ty) (m : List (String × GoVal)) : fitsVals t m = true ↔ ∀ e ∈ m, fits t e.2 = true := by
  induction m with
  | nil => simp [fitsVals]
  | cons e r ih =>
    obtain ⟨k, x⟩ := e
    simp [fitsVals, ih]

theorem recValidateMap_all (std : Stdlib) (o : Opts) (t : Ty) (m : List (String × GoVal)) :
    recValidateMap std o t m = none ↔ ∀ e ∈ m, recValidate std o t [] e.2 = none := by
  induction m with
  | nil => unfold recValidateMap; simp
  | cons e r ih =>
    obtain ⟨k, x⟩ := e
    unfold recValidateMap
    cases h : recValidate std o t [] x with
    | some err => simp [h]
    | none => simp [h, ih]

theorem recValidate_map (std : Stdlib) (o : Opts) (t : Ty) (m : List (String × GoVal)) :
    recValidate std o (.map t) [] (.map (some m)) = recValidateMap std o t m := by
  conv => lhs; unfold recValidate
  simp only [runValidators_nil]

theorem str_trichotomy (a b : String) (h1 : ¬ a = b) (h2 : ¬ a < b) : b < a := by
  have h3 : b ≤ a := String.not_lt.mp h2
  rcases Classical.em (b < a) with h | h
  · exact h
  · exact absurd (String.le_antisymm (String.not_lt.mp h) h3) h1

theorem keysBelow_iff (k : String) (m : List (String × GoVal)) : keysBelow k m = true ↔ ∀ e ∈ m, k < e.1 := by
  simp [keysBelow]

/-- where an entry of `gmapSet m k v` comes from, for a sorted `m` -/
theorem mem_gmapSet (m : List (String × GoVal)) (k : String) (v : GoVal) (hs : keysSorted m = true) :
    ∀ e, e ∈ gmapSet m k v → e = (k, v) ∨ (e ∈ m ∧ e.1 ≠ k) := by
  induction m with
  | nil => intro e he; simp [gmapSet] at he; exact Or.inl he
  | cons kv r ih =>
    obtain ⟨k', v'⟩ := kv
    simp only [keysSorted, Bool.and_eq_true] at hs
    obtain ⟨hb, hsr⟩ := hs
    rw [keysBelow_iff] at hb
    intro e he
    unfold gmapSet at he
    by_cases h1 : k = k'
    · simp only [h1, if_true, List.mem_cons] at he
      rcases he with he | he
      · exact Or.inl (by rw [he, h1])
      · refine Or.inr ⟨List.mem_cons_of_mem _ he, ?_⟩
        intro hk
        have := hb e he
        rw [hk, h1] at this
        exact String.lt_irrefl _ this
    · simp only [h1, if_false] at he
      by_cases h2 : k < k'
      · simp only [h2, if_true, List.mem_cons] at he
        rcases he with he | he | he
        · exact Or.inl he
        · refine Or.inr ⟨by rw [he]; exact List.mem_cons_self, ?_⟩
          rw [he]; exact fun hk => h1 hk.symm
        · refine Or.inr ⟨List.mem_cons_of_mem _ he, ?_⟩
          intro hk
          have := String.lt_trans h2 (hb e he)
          rw [hk] at this
          exact String.lt_irrefl _ this
      · simp only [h2, if_false, List.mem_cons] at he
        rcases he with he | he
        · refine Or.inr ⟨by rw [he]; exact List.mem_cons_self, ?_⟩
          rw [he]; exact fun hk => h1 hk.symm
        · rcases ih hsr e he with h | ⟨h, hne⟩
          · exact Or.inl h
          · exact Or.inr ⟨List.mem_cons_of_mem _ h, hne⟩

theorem gmapSet_sorted (m : List (String × GoVal)) (k : String) (v : GoVal) (hs : keysSorted m = true) :
    keysSorted (gmapSet m k v) = true := by
  induction m with
  | nil => simp [gmapSet, keysSorted, keysBelow]
  | cons kv r ih =>
    obtain ⟨k', v'⟩ := kv
    have hs0 := hs
    simp only [keysSorted, Bool.and_eq_true] at hs
    obtain ⟨hb, hsr⟩ := hs
    unfold gmapSet
    by_cases h1 : k = k'
    · simp only [h1, if_true, keysSorted, Bool.and_eq_true]
      exact ⟨hb, hsr⟩
    · simp only [h1, if_false]
      by_cases h2 : k < k'
      · simp only [h2, if_true]
        simp only [keysSorted, Bool.and_eq_true]
        refine ⟨?_, hb, hsr⟩
        rw [keysBelow_iff] at hb ⊢
        intro e he
        simp only [List.mem_cons] at he
        rcases he with he | he
        · rw [he]; exact h2
        · exact String.lt_trans h2 (hb e he)
      · simp only [h2, if_false]
        simp only [keysSorted, Bool.and_eq_true]
        refine ⟨?_, ih hsr⟩
        rw [keysBelow_iff] at hb ⊢
        intro e he
        rcases mem_gmapSet r k v hsr e he with h | ⟨h, _⟩
        · rw [h]; exact str_trichotomy k k' h1 h2
        · exact hb e h

theorem gmapGet_mem (m : List (String × GoVal)) (k : String) (old : GoVal) (h : gmapGet m k = some old) :
    ∃ e ∈ m, e.2 = old := by
  unfold gmapGet at h
  cases hf : m.find? (fun x => x.1 == k) with
  | none => rw [hf] at h; simp at h
  | some e =>
    rw [hf] at h
    simp only [Option.map_some, Option.some.injEq] at h
    exact ⟨e, List.mem_of_find?_eq_some hf, h⟩

theorem fits_iface_false (t : Ty) (d : Option Data) : fits t (.iface d) = false := by
  cases t <;> simp [fits]

end Ucfg
