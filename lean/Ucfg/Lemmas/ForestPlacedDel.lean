import Ucfg.Lemmas.ForestPlacedSet
import Std.Data.String.ToNat
/-!
  "Every node stores the position it is at" (`WP`) through Remove: `dictDel` and `delAt` (which renumbers the elements
  behind the removed one).
-/
namespace Ucfg.Forest

theorem idxName_inj {i j : Nat} (h : idxName i = idxName j) : i = j := by
  unfold idxName at h
  exact Nat.repr_injective h

/-- under the invariant the elements of a list are different nodes -/
theorem wp_arr_nodup {h : Heap} (w : WP h) {to : Id} {p f d a} (hg : getSub h to = some (p, f, d, a)) : a.Nodup := by
  have pl := placed_of_getSub w hg
  rw [List.nodup_iff_pairwise_ne, List.pairwise_iff_getElem]
  intro i j hi hj hij he
  obtain ⟨b1, h1⟩ := pl.2 i a[i] (List.getElem?_eq_getElem hi)
  have hj' : a[j]? = some a[i] := by rw [he]; exact List.getElem?_eq_getElem hj
  obtain ⟨b2, h2⟩ := pl.2 j a[i] hj'
  rw [h1] at h2
  simp only [Option.some.injEq, Node.mk.injEq] at h2
  exact absurd (idxName_inj h2.2.1) (Nat.ne_of_lt hij)

/-- removing a named setting -/
theorem dictDel_wp (h : Heap) (to : Id) (name : String) (w : WP h) : WP (dictDel h to name) := by
  unfold dictDel
  cases hg : getSub h to with
  | none => exact w
  | some q =>
    obtain ⟨p, f, d, a⟩ := q
    simp only
    have pl := placed_of_getSub w hg
    apply wp_setBody _ _ w
    exact ⟨fun kc hkc => pl.1 kc (List.mem_filter.mp hkc).1, pl.2⟩

/-- renumbering touches the names of the listed nodes only -/
theorem renumber_field_only : ∀ (cs : List Id) (h : Heap) (j : Nat) (x : Nat) (nd : Node), h[x]? = some nd →
    ∃ f', (renumber h cs j)[x]? = some ({ nd with field := f' } : Node) := by
  intro cs
  induction cs with
  | nil => intro h j x nd hx; exact ⟨nd.field, by simpa [renumber] using hx⟩
  | cons c r ih =>
    intro h j x nd hx
    simp only [renumber]
    by_cases e : x = c
    · subst e
      obtain ⟨f', hf⟩ := ih (setField h x (idxName j)) (j + 1) x _ (setField_same h x (idxName j) nd hx)
      exact ⟨f', by rw [hf]⟩
    · exact ih _ _ x nd (by rw [setField_other _ _ _ _ e]; exact hx)

end Ucfg.Forest
