import Ucfg.Lemmas.ForestPlacedSet
/-!
  What NewFrom / Merge build from a source value (`buildH`, Model/Forest.lean): it only allocates - every node that existed,
  the embedded configs included, is what it was - and what it builds stores its positions.
-/
namespace Ucfg.Forest

/-- nothing that existed changed: the heap is the old one with new nodes behind it, except that ... nothing -/
def Ext (h h' : Heap) : Prop := ∃ t, h' = h ++ t

theorem Ext.refl (h : Heap) : Ext h h := ⟨[], by simp⟩
theorem Ext.trans {a b c : Heap} (x : Ext a b) (y : Ext b c) : Ext a c := by
  obtain ⟨t1, rfl⟩ := x; obtain ⟨t2, rfl⟩ := y; exact ⟨t1 ++ t2, by simp⟩
theorem Ext.old {h h' : Heap} (e : Ext h h') {i : Nat} (hi : i < h.length) : h'[i]? = h[i]? := by
  obtain ⟨t, rfl⟩ := e; exact List.getElem?_append_left hi
theorem Ext.len {h h' : Heap} (e : Ext h h') : h.length ≤ h'.length := by
  obtain ⟨t, rfl⟩ := e; simp

/-- writing the body of a node that was allocated after `h0` keeps `h0` as a prefix -/
theorem ext_setBody_new {h0 h : Heap} (e : Ext h0 h) (me : Id) (b : Body) (hme : h0.length ≤ me) :
    Ext h0 (setBody h me b) := by
  obtain ⟨t, rfl⟩ := e
  unfold setBody
  cases hn : (h0 ++ t)[me]? with
  | none => exact ⟨t, rfl⟩
  | some n =>
    simp only
    refine ⟨t.set (me - h0.length) { n with body := b }, ?_⟩
    rw [List.set_append_right _ _ hme]

/-- the nodes behind `h` list only nodes behind `h` as their children -/
def NewFresh (h h' : Heap) : Prop :=
  ∀ (j : Nat) (nd : Node), h.length ≤ j → h'[j]? = some nd → ∀ c ∈ nd.body.children, h.length ≤ c

theorem NewFresh.refl (h : Heap) : NewFresh h h := by
  intro j nd hj hn
  rw [List.getElem?_eq_none hj] at hn
  cases hn

/-- composition: first `h -> h1`, then `h1 -> h2` by extension -/
theorem NewFresh.trans {h h1 h2 : Heap} (a : NewFresh h h1) (e01 : Ext h h1) (b : NewFresh h1 h2) (e12 : Ext h1 h2) :
    NewFresh h h2 := by
  intro j nd hj hn c hc
  by_cases hlt : j < h1.length
  · rw [e12.old hlt] at hn
    exact a j nd hj hn c hc
  · exact Nat.le_trans e01.len (b j nd (Nat.le_of_not_lt hlt) hn c hc)

theorem newFresh_single (h : Heap) (nd : Node) (hc : ∀ c ∈ nd.body.children, h.length ≤ c) : NewFresh h (h ++ [nd]) := by
  intro j nd' hj hn c hcc
  rw [List.getElem?_append_right hj] at hn
  cases hji : j - h.length with
  | zero => rw [hji] at hn; simp only [List.getElem?_cons_zero, Option.some.injEq] at hn; subst hn; exact hc c hcc
  | succ k => rw [hji] at hn; simp at hn

/-- writing, into a node behind `h`, a body that lists nodes behind `h` -/
theorem newFresh_setBody {h h1 : Heap} (a : NewFresh h h1) (me : Id) (b : Body) (hb : ∀ c ∈ b.children, h.length ≤ c) :
    NewFresh h (setBody h1 me b) := by
  intro j nd hj hn c hc
  by_cases e : j = me
  · subst e
    cases h0 : h1[j]? with
    | none =>
      have : setBody h1 j b = h1 := by unfold setBody; rw [h0]
      rw [this, h0] at hn; cases hn
    | some n0 =>
      rw [setBody_same h1 j b n0 h0] at hn
      simp only [Option.some.injEq] at hn
      subst hn
      exact hb c hc
  · rw [setBody_other h1 me j b e] at hn
    exact a j nd hj hn c hc

/-- what `buildH` returns: the old heap is a prefix, the new node is the first one behind it and carries the context asked
for, and - given the invariant - the invariant -/
structure BuildOk (h : Heap) (p : Option Id) (f : String) (h' : Heap) (id : Id) : Prop where
  ext : Ext h h'
  id_eq : id = h.length
  ctx : ∃ b, h'[id]? = some (⟨p, f, b⟩ : Node)
  wp : WP h → WP h'
  fresh : NewFresh h h'

mutual
theorem buildH_ok (cf : Nat) : ∀ (s : Src) (h : Heap) (p : Option Id) (f : String) (h' : Heap) (id : Id),
    buildH cf h s p f = some (h', id) → BuildOk h p f h' id
  | .nil, h, p, f, h', id, he => by
    simp only [buildH, Option.some.injEq, Prod.mk.injEq] at he
    obtain ⟨rfl, rfl⟩ := he
    refine ⟨⟨_, rfl⟩, rfl, ⟨.prim "nil" "", by simp [nilNode]⟩, fun w => ?_,
      newFresh_single h _ (fun c hc => by simp [nilNode, Body.children] at hc)⟩
    apply wp_append _ w
    intro j nd hj
    cases j with
    | zero => simp only [List.getElem?_cons_zero, Option.some.injEq] at hj; subst hj; trivial
    | succ j => simp at hj
  | .prim k v, h, p, f, h', id, he => by
    simp only [buildH, Option.some.injEq, Prod.mk.injEq] at he
    obtain ⟨rfl, rfl⟩ := he
    refine ⟨⟨_, rfl⟩, rfl, ⟨.prim k v, by simp⟩, fun w => ?_,
      newFresh_single h _ (fun c hc => by simp [Body.children] at hc)⟩
    apply wp_append _ w
    intro j nd hj
    cases j with
    | zero => simp only [List.getElem?_cons_zero, Option.some.injEq] at hj; subst hj; trivial
    | succ j => simp at hj
  | .reg r, h, p, f, h', id, he => by
    simp only [buildH] at he
    obtain ⟨t, rfl, hid, hfr, hb⟩ := cpy_good cf h.length h r p f h' id (Nat.le_refl _) he
    refine ⟨⟨t, rfl⟩, hid, hb, fun w => cpy_wp cf h r p f _ id w he, ?_⟩
    intro j nd hj hn c hc
    rw [List.getElem?_append_right hj] at hn
    exact hfr nd (List.mem_of_getElem? hn) c hc
  | .arr xs, h, p, f, h', id, he => by
    simp only [buildH] at he
    cases hl : buildListH cf (h ++ [⟨p, f, .sub [] []⟩]) h.length 0 xs with
    | none => rw [hl] at he; cases he
    | some r =>
      obtain ⟨h1, ids⟩ := r
      rw [hl] at he
      simp only [Option.some.injEq, Prod.mk.injEq] at he
      obtain ⟨rfl, rfl⟩ := he
      let nw : Node := ⟨p, f, .sub [] []⟩
      obtain ⟨e1, hfr1, hw, hpl⟩ := buildListH_ok cf xs (h ++ [nw]) h.length 0 h1 ids hl
      have e0 : Ext h (h ++ [nw]) := ⟨[nw], rfl⟩
      have hme0 : (h ++ [nw])[h.length]? = some nw := by simp
      have hme1 : h1[h.length]? = some nw := by rw [e1.old (by simp)]; exact hme0
      have hfr0 : NewFresh h (h ++ [nw]) := newFresh_single h nw (fun c hc => by simp [nw, Body.children] at hc)
      have hfrA : NewFresh h h1 := hfr0.trans e0 hfr1.1 e1
      refine ⟨ext_setBody_new (e0.trans e1) _ _ (Nat.le_refl _), rfl, ⟨.sub [] ids, by rw [setBody_same _ _ _ _ hme1]⟩, ?_,
        newFresh_setBody hfrA _ _ (fun c hc => by
          simp only [Body.children, List.map_nil, List.nil_append] at hc
          exact Nat.le_trans (by simp) (hfr1.2 c hc))⟩
      intro w
      have w0 : WP (h ++ [nw]) := by
        apply wp_append _ w
        intro j nd hj
        cases j with
        | zero =>
          simp only [List.getElem?_cons_zero, Option.some.injEq] at hj
          subst hj
          exact ⟨fun kc hkc => (by cases hkc), fun i c hc => (by simp at hc)⟩
        | succ j => simp at hj
      apply wp_setBody _ _ (hw w0)
      refine ⟨fun kc hkc => (by cases hkc), ?_⟩
      intro i c hc
      have := hpl i c hc
      simpa using this
  | .map es, h, p, f, h', id, he => by
    simp only [buildH] at he
    cases hl : buildEntriesH cf (h ++ [⟨p, f, .sub [] []⟩]) h.length es with
    | none => rw [hl] at he; cases he
    | some r =>
      obtain ⟨h1, d⟩ := r
      rw [hl] at he
      simp only [Option.some.injEq, Prod.mk.injEq] at he
      obtain ⟨rfl, rfl⟩ := he
      let nw : Node := ⟨p, f, .sub [] []⟩
      obtain ⟨e1, hfr1, hw, hpl⟩ := buildEntriesH_ok cf es (h ++ [nw]) h.length h1 d hl
      have e0 : Ext h (h ++ [nw]) := ⟨[nw], rfl⟩
      have hme0 : (h ++ [nw])[h.length]? = some nw := by simp
      have hme1 : h1[h.length]? = some nw := by rw [e1.old (by simp)]; exact hme0
      have hfr0 : NewFresh h (h ++ [nw]) := newFresh_single h nw (fun c hc => by simp [nw, Body.children] at hc)
      have hfrA : NewFresh h h1 := hfr0.trans e0 hfr1.1 e1
      refine ⟨ext_setBody_new (e0.trans e1) _ _ (Nat.le_refl _), rfl, ⟨.sub d [], by rw [setBody_same _ _ _ _ hme1]⟩, ?_,
        newFresh_setBody hfrA _ _ (fun c hc => by
          simp only [Body.children, List.append_nil, List.mem_map] at hc
          obtain ⟨kc, hkc, rfl⟩ := hc
          exact Nat.le_trans (by simp) (hfr1.2 kc hkc))⟩
      intro w
      have w0 : WP (h ++ [nw]) := by
        apply wp_append _ w
        intro j nd hj
        cases j with
        | zero =>
          simp only [List.getElem?_cons_zero, Option.some.injEq] at hj
          subst hj
          exact ⟨fun kc hkc => (by cases hkc), fun i c hc => (by simp at hc)⟩
        | succ j => simp at hj
      apply wp_setBody _ _ (hw w0)
      exact ⟨hpl, fun i c hc => (by simp at hc)⟩

/-- the elements: the heap is extended, the invariant kept, and element `j` of the result stores `me` and index `i + j` -/
theorem buildListH_ok (cf : Nat) : ∀ (xs : List Src) (h : Heap) (me i : Nat) (h' : Heap) (ids : List Id),
    buildListH cf h me i xs = some (h', ids) →
    Ext h h' ∧ (NewFresh h h' ∧ ∀ c ∈ ids, h.length ≤ c) ∧ (WP h → WP h') ∧
      ∀ (j : Nat) (c : Id), ids[j]? = some c → ∃ b, h'[c]? = some (⟨some me, idxName (i + j), b⟩ : Node)
  | [], h, me, i, h', ids, he => by
    simp only [buildListH, Option.some.injEq, Prod.mk.injEq] at he
    obtain ⟨rfl, rfl⟩ := he
    exact ⟨Ext.refl h, ⟨NewFresh.refl h, fun c hc => (by cases hc)⟩, fun w => w, fun j c hc => (by simp at hc)⟩
  | x :: r, h, me, i, h', ids, he => by
    simp only [buildListH] at he
    cases hb : buildH cf h x (some me) (idxName i) with
    | none => rw [hb] at he; cases he
    | some r1 =>
      obtain ⟨h1, c⟩ := r1
      rw [hb] at he
      simp only at he
      cases hr : buildListH cf h1 me (i + 1) r with
      | none => rw [hr] at he; cases he
      | some r2 =>
        obtain ⟨h2, cs⟩ := r2
        rw [hr] at he
        simp only [Option.some.injEq, Prod.mk.injEq] at he
        obtain ⟨rfl, rfl⟩ := he
        have ok1 := buildH_ok cf x h (some me) (idxName i) h1 c hb
        obtain ⟨e2, hfr2, hw2, hpl2⟩ := buildListH_ok cf r h1 me (i + 1) h2 cs hr
        refine ⟨ok1.ext.trans e2, ⟨ok1.fresh.trans ok1.ext hfr2.1 e2, ?_⟩, fun w => hw2 (ok1.wp w), ?_⟩
        · intro c' hc'
          rcases List.mem_cons.mp hc' with e | e
          · rw [e, ok1.id_eq]; exact Nat.le_refl _
          · exact Nat.le_trans ok1.ext.len (hfr2.2 c' e)
        intro j c' hc'
        cases j with
        | zero =>
          simp only [List.getElem?_cons_zero, Option.some.injEq] at hc'
          subst hc'
          obtain ⟨b, hb1⟩ := ok1.ctx
          have hlt : c < h1.length := lt_of_getElem?_some hb1
          exact ⟨b, by rw [e2.old hlt]; simpa using hb1⟩
        | succ j =>
          simp only [List.getElem?_cons_succ] at hc'
          obtain ⟨b, hb2⟩ := hpl2 j c' hc'
          exact ⟨b, by rw [hb2]; simp [Nat.add_assoc, Nat.add_comm 1 j]⟩

/-- the entries: each stores `me` and its key -/
theorem buildEntriesH_ok (cf : Nat) : ∀ (es : List (String × Src)) (h : Heap) (me : Nat) (h' : Heap) (d : List (String × Id)),
    buildEntriesH cf h me es = some (h', d) →
    Ext h h' ∧ (NewFresh h h' ∧ ∀ kc ∈ d, h.length ≤ kc.2) ∧ (WP h → WP h') ∧
      ∀ kc ∈ d, ∃ b, h'[kc.2]? = some (⟨some me, kc.1, b⟩ : Node)
  | [], h, me, h', d, he => by
    simp only [buildEntriesH, Option.some.injEq, Prod.mk.injEq] at he
    obtain ⟨rfl, rfl⟩ := he
    exact ⟨Ext.refl h, ⟨NewFresh.refl h, fun kc hkc => (by cases hkc)⟩, fun w => w, fun kc hkc => (by cases hkc)⟩
  | (k, x) :: r, h, me, h', d, he => by
    simp only [buildEntriesH] at he
    cases hb : buildH cf h x (some me) k with
    | none => rw [hb] at he; cases he
    | some r1 =>
      obtain ⟨h1, c⟩ := r1
      rw [hb] at he
      simp only at he
      cases hr : buildEntriesH cf h1 me r with
      | none => rw [hr] at he; cases he
      | some r2 =>
        obtain ⟨h2, d2⟩ := r2
        rw [hr] at he
        simp only [Option.some.injEq, Prod.mk.injEq] at he
        obtain ⟨rfl, rfl⟩ := he
        have ok1 := buildH_ok cf x h (some me) k h1 c hb
        obtain ⟨e2, hfr2, hw2, hpl2⟩ := buildEntriesH_ok cf r h1 me h2 d2 hr
        refine ⟨ok1.ext.trans e2, ⟨ok1.fresh.trans ok1.ext hfr2.1 e2, ?_⟩, fun w => hw2 (ok1.wp w), ?_⟩
        · intro kc hkc
          rcases List.mem_cons.mp hkc with e | e
          · rw [e]; simp only; rw [ok1.id_eq]; exact Nat.le_refl _
          · exact Nat.le_trans ok1.ext.len (hfr2.2 kc e)
        intro kc hkc
        rcases List.mem_cons.mp hkc with e | e
        · subst e
          obtain ⟨b, hb1⟩ := ok1.ctx
          have hlt : c < h1.length := lt_of_getElem?_some hb1
          exact ⟨b, by rw [e2.old hlt]; exact hb1⟩
        · exact hpl2 kc e
end

end Ucfg.Forest
