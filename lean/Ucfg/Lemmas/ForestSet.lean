import Ucfg.Lemmas.Forest
/-!
  Writes through a whole path (Model/Forest.lean `storeSeg`, `setChain`): what they do to the nodes that exist - every
  node keeps its stored parent and name, only the body of the node written to changes - and the chain of new nodes they
  build.
-/
namespace Ucfg.Forest

/-- a write to `to`: the heap may grow, the other nodes are as they were, `to` keeps its stored parent and name -/
def Upd (to : Id) (h h' : Heap) : Prop :=
  h.length ≤ h'.length ∧ (∀ i, i < h.length → i ≠ to → h'[i]? = h[i]?) ∧
  (∀ nd : Node, h[to]? = some nd → ∃ b, h'[to]? = some (⟨nd.parent, nd.field, b⟩ : Node))

theorem Upd.refl (to : Id) (h : Heap) : Upd to h h :=
  ⟨Nat.le_refl _, fun _ _ _ => rfl, fun nd hn => ⟨nd.body, by rw [hn]⟩⟩

theorem Upd.trans {to : Id} {h1 h2 h3 : Heap} (a : Upd to h1 h2) (b : Upd to h2 h3) : Upd to h1 h3 := by
  refine ⟨Nat.le_trans a.1 b.1, ?_, ?_⟩
  · intro i hi hne
    rw [b.2.1 i (Nat.lt_of_lt_of_le hi a.1) hne, a.2.1 i hi hne]
  · intro nd hn
    obtain ⟨b1, h2⟩ := a.2.2 nd hn
    obtain ⟨b2, h3⟩ := b.2.2 _ h2
    exact ⟨b2, h3⟩

theorem upd_setBody (h : Heap) (to : Id) (b : Body) : Upd to h (setBody h to b) := by
  refine ⟨by rw [setBody_length]; exact Nat.le_refl _, fun i _ hne => setBody_other h to i b hne, ?_⟩
  intro nd hn
  exact ⟨b, by rw [setBody_same h to b nd hn]⟩

theorem upd_append (h : Heap) (to : Id) (t : List Node) : Upd to h (h ++ t) := by
  refine ⟨by simp, fun i hi _ => List.getElem?_append_left hi, ?_⟩
  intro nd hn
  have hlt : to < h.length := by
    apply Nat.lt_of_not_le
    intro hle
    rw [List.getElem?_eq_none hle] at hn
    cases hn
  exact ⟨nd.body, by rw [List.getElem?_append_left hlt, hn]⟩

theorem padTo_upd : ∀ (n : Nat) (h : Heap) (to idx : Nat), Upd to h (padTo n h to idx) := by
  intro n
  induction n with
  | zero => intro h to idx; exact Upd.refl to h
  | succ n ih =>
    intro h to idx
    unfold padTo
    cases hg : getSub h to with
    | none => exact Upd.refl to h
    | some q =>
      obtain ⟨p, f, d, a⟩ := q
      simp only
      split
      · exact (upd_append h to _).trans ((upd_setBody _ to _).trans (ih _ to idx))
      · exact Upd.refl to h

theorem setAt_upd (h : Heap) (to idx c : Nat) : Upd to h (setAt h to idx c) := by
  unfold setAt
  simp only
  cases hg : getSub (padTo (idx + 1) h to idx) to with
  | none => exact padTo_upd _ h to idx
  | some q =>
    obtain ⟨p, f, d, a⟩ := q
    simp only
    split
    · exact (padTo_upd _ h to idx).trans (upd_setBody _ to _)
    · exact (padTo_upd _ h to idx).trans (upd_setBody _ to _)

theorem storeSeg_upd (h : Heap) (to : Id) (s : Seg) (c : Id) : Upd to h (storeSeg h to s c) := by
  cases s with
  | name k =>
    unfold storeSeg
    simp only
    cases hg : getSub h to with
    | none => exact Upd.refl to h
    | some q => obtain ⟨p, f, d, a⟩ := q; exact upd_setBody h to _
  | idx i => exact setAt_upd h to i c

/-- every existing node keeps its stored parent and name -/
def SameCtx (h h' : Heap) : Prop :=
  h.length ≤ h'.length ∧ ∀ (i : Nat) (nd : Node), h[i]? = some nd → ∃ b, h'[i]? = some (⟨nd.parent, nd.field, b⟩ : Node)

theorem SameCtx.refl (h : Heap) : SameCtx h h := ⟨Nat.le_refl _, fun i nd hn => ⟨nd.body, by rw [hn]⟩⟩

theorem SameCtx.trans {h1 h2 h3 : Heap} (a : SameCtx h1 h2) (b : SameCtx h2 h3) : SameCtx h1 h3 := by
  refine ⟨Nat.le_trans a.1 b.1, ?_⟩
  intro i nd hn
  obtain ⟨b1, h2⟩ := a.2 i nd hn
  obtain ⟨b2, h3⟩ := b.2 i _ h2
  exact ⟨b2, h3⟩

theorem Upd.sameCtx {to : Id} {h h' : Heap} (u : Upd to h h') : SameCtx h h' := by
  refine ⟨u.1, ?_⟩
  intro i nd hn
  have hlt : i < h.length := by
    apply Nat.lt_of_not_le
    intro hle
    rw [List.getElem?_eq_none hle] at hn
    cases hn
  by_cases e : i = to
  · subst e; exact u.2.2 nd hn
  · exact ⟨nd.body, by rw [u.2.1 i hlt e, hn]⟩

theorem setChain_cons2 (h : Heap) (to : Id) (s s2 : Seg) (r : List Seg) (l : Leaf) :
    setChain h to (s :: s2 :: r) l =
      setChain (storeSeg (h ++ [⟨some to, s.str, .sub [] []⟩]) to s h.length) h.length (s2 :: r) l := rfl

theorem setChain_one (h : Heap) (to : Id) (s : Seg) (k v : String) :
    setChain h to [s] (.prim k v) = storeSeg (h ++ [⟨some to, s.str, .prim k v⟩]) to s h.length := rfl

theorem setChain_sameCtx (k v : String) : ∀ (rest : List Seg) (h : Heap) (to : Id),
    SameCtx h (setChain h to rest (.prim k v)) := by
  intro rest
  induction rest with
  | nil => intro h to; exact SameCtx.refl h
  | cons s r ih =>
    intro h to
    cases r with
    | nil =>
      rw [setChain_one]
      exact (upd_append h to _).sameCtx.trans (storeSeg_upd _ to s _).sameCtx
    | cons s2 r2 =>
      rw [setChain_cons2]
      exact (upd_append h to _).sameCtx.trans ((storeSeg_upd _ to s _).sameCtx.trans (ih _ _))

/-- the new nodes form a chain below `to`: each stores the one above as parent and its segment as name; the last one is
the value -/
theorem setChain_chain (k v : String) : ∀ (rest : List Seg) (h : Heap) (to : Id), to < h.length → rest ≠ [] →
    (∀ s ∈ rest, s.str ≠ "") →
    ∃ links : List (String × Id), links.map (·.1) = rest.map Seg.str ∧ Chain (setChain h to rest (.prim k v)) to links ∧
      ∃ nm leaf p, links.getLast? = some (nm, leaf) ∧
        (setChain h to rest (.prim k v))[leaf]? = some ⟨some p, nm, .prim k v⟩ := by
  intro rest
  induction rest with
  | nil => intro h to _ hne; exact absurd rfl hne
  | cons s r ih =>
    intro h to hto _ hnames
    have hs : s.str ≠ "" := hnames s (List.mem_cons_self ..)
    have hne : h.length ≠ to := Nat.ne_of_gt hto
    cases r with
    | nil =>
      rw [setChain_one]
      have u := storeSeg_upd (h ++ [(⟨some to, s.str, .prim k v⟩ : Node)]) to s h.length
      have hleaf : (storeSeg (h ++ [(⟨some to, s.str, .prim k v⟩ : Node)]) to s h.length)[h.length]? =
          some ⟨some to, s.str, .prim k v⟩ := by
        rw [u.2.1 h.length (by simp) hne]; simp
      refine ⟨[(s.str, h.length)], rfl, ⟨⟨_, hleaf⟩, hs, trivial⟩, s.str, h.length, to, rfl, hleaf⟩
    | cons s2 r2 =>
      rw [setChain_cons2]
      let nw : Node := ⟨some to, s.str, .sub [] []⟩
      have u := storeSeg_upd (h ++ [nw]) to s h.length
      have hc : (storeSeg (h ++ [nw]) to s h.length)[h.length]? = some nw := by
        rw [u.2.1 h.length (by simp) hne]; simp
      have hlt : h.length < (storeSeg (h ++ [nw]) to s h.length).length :=
        Nat.lt_of_lt_of_le (by simp) u.1
      obtain ⟨links', hm, hch, nm, leaf, p, hlast, hl⟩ :=
        ih (storeSeg (h ++ [nw]) to s h.length) h.length hlt (by simp)
          (fun x hx => hnames x (List.mem_cons_of_mem _ hx))
      obtain ⟨b, hb⟩ := (setChain_sameCtx k v (s2 :: r2) (storeSeg (h ++ [nw]) to s h.length) h.length).2 h.length nw hc
      refine ⟨(s.str, h.length) :: links', by simp [hm], ⟨⟨b, hb⟩, hs, hch⟩, nm, leaf, p, ?_, hl⟩
      cases links' with
      | nil => simp at hm
      | cons x xs => rw [List.getLast?_cons_cons]; exact hlast

/-- what the walk leaves to be built is a non-empty tail of the address -/
theorem walkSet_rest (h : Heap) : ∀ (root : Id) (segs : List Seg) (to : Id) (rest : List Seg), segs ≠ [] →
    walkSet h root segs = .stop to rest → rest ≠ [] ∧ ∀ s ∈ rest, s ∈ segs := by
  intro root segs
  induction segs generalizing root with
  | nil => intro to rest hne; exact absurd rfl hne
  | cons s r ih =>
    intro to rest _ hw
    cases r with
    | nil =>
      simp only [walkSet, Walk.stop.injEq] at hw
      obtain ⟨_, rfl⟩ := hw
      exact ⟨by simp, fun x hx => hx⟩
    | cons s2 r2 =>
      have ih' := fun root to rest hw => ih root to rest (by simp) hw
      simp only [walkSet] at hw
      cases hn : h[root]? with
      | none => rw [hn] at hw; cases hw
      | some n =>
        rw [hn] at hw
        simp only at hw
        cases hb : n.body with
        | sub d a =>
          rw [hb] at hw
          simp only at hw
          split at hw
          · simp only [Walk.stop.injEq] at hw
            obtain ⟨_, rfl⟩ := hw
            exact ⟨by simp, fun x hx => hx⟩
          · split at hw
            · cases hw
            · split at hw
              · simp only [Walk.stop.injEq] at hw
                obtain ⟨_, rfl⟩ := hw
                exact ⟨by simp, fun x hx => hx⟩
              · obtain ⟨h1, h2⟩ := ih' _ to rest hw
                exact ⟨h1, fun x hx => List.mem_cons_of_mem _ (h2 x hx)⟩
        | prim k v =>
          rw [hb] at hw
          simp only at hw
          split at hw
          · cases hw
          · split at hw
            · obtain ⟨h1, h2⟩ := ih' _ to rest hw
              exact ⟨h1, fun x hx => List.mem_cons_of_mem _ (h2 x hx)⟩
            · cases hw

end Ucfg.Forest
