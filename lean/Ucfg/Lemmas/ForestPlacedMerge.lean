import Ucfg.Lemmas.ForestPlaced
import Ucfg.Lemmas.ForestMerge
/-!
  "Every node stores the position it is at" (`WP`, Lemmas/ForestPlaced.lean) through list appends and through Merge as a
  whole (`mergeH`, every list policy).
-/
namespace Ucfg.Forest

theorem placed_of_getSub {h : Heap} (w : WP h) {to : Id} {p f d a} (hg : getSub h to = some (p, f, d, a)) :
    Placed h to (.sub d a) := by
  have := w to _ (getSub_node hg)
  exact this

/-- after a copy, the node written to still has the body it had -/
theorem getSub_after_cpy {cf : Nat} {h h1 : Heap} {v c : Id} {p0 : Option Id} {k : String} {to : Id} {p f d a}
    (hc : cpy cf h v p0 k = some (h1, c)) (hg : getSub h to = some (p, f, d, a)) :
    getSub h1 to = some (p, f, d, a) ∧ c = h.length ∧ (∃ b, h1[c]? = some (⟨p0, k, b⟩ : Node)) := by
  obtain ⟨t, rfl, hid, _, hb⟩ := cpy_good cf 0 h v p0 k h1 c (Nat.zero_le _) hc
  refine ⟨?_, hid, hb⟩
  apply getSub_of_node
  rw [List.getElem?_append_left (getSub_lt hg)]
  exact getSub_node hg

theorem mem_dictSet_pair (d : List (String × Id)) (k : String) (c : Id) :
    ∀ kc ∈ dictSet d k c, kc = (k, c) ∨ kc ∈ d := by
  intro kc hkc
  unfold dictSet at hkc
  split at hkc
  · obtain ⟨x, hx, rfl⟩ := List.mem_map.mp hkc
    obtain ⟨k', c'⟩ := x
    simp only at *
    split
    · rename_i hk
      simp only [beq_iff_eq] at hk
      subst hk
      exact Or.inl rfl
    · exact Or.inr hx
  · rcases List.mem_append.mp hkc with h | h
    · exact Or.inr h
    · simp only [List.mem_singleton] at h
      exact Or.inl h

/-- fields.append keeps the invariant: each copy gets the next index -/
theorem appendCpy_wp (cf : Nat) : ∀ (src : List Id) (h h' : Heap) (to : Id),
    WP h → appendCpy cf h to src = some h' → WP h'
  | [], h, h', to, w, he => by
    simp only [appendCpy, Option.some.injEq] at he
    subst he
    exact w
  | c :: r, h, h', to, w, he => by
    simp only [appendCpy] at he
    cases hg : getSub h to with
    | none => rw [hg] at he; cases he
    | some q =>
      obtain ⟨p, f, d, a⟩ := q
      rw [hg] at he
      simp only at he
      cases hc : cpy cf h c (some to) (idxName a.length) with
      | none => rw [hc] at he; cases he
      | some r1 =>
        obtain ⟨h1, c'⟩ := r1
        rw [hc] at he
        simp only at he
        have w1 : WP h1 := cpy_wp cf h c (some to) _ h1 c' w hc
        obtain ⟨hg1, _, ⟨b, hb⟩⟩ := getSub_after_cpy hc hg
        have pl := placed_of_getSub w1 hg1
        have w2 : WP (setBody h1 to (.sub d (a ++ [c']))) := by
          apply wp_setBody _ _ w1
          refine ⟨pl.1, ?_⟩
          intro i x hx
          by_cases hi : i < a.length
          · rw [List.getElem?_append_left hi] at hx
            exact pl.2 i x hx
          · have hge : a.length ≤ i := Nat.le_of_not_lt hi
            rw [List.getElem?_append_right hge] at hx
            cases hia : i - a.length with
            | zero =>
              rw [hia] at hx
              simp only [List.getElem?_cons_zero, Option.some.injEq] at hx
              subst hx
              have : i = a.length := by omega
              subst this
              exact ⟨b, hb⟩
            | succ j => rw [hia] at hx; simp at hx
        exact appendCpy_wp cf r _ h' to w2 he

theorem mergeListCopy_wp (cf : Nat) (pol : ArrPol) (h h' : Heap) (to : Id) (fa : List Id)
    (w : WP h) (he : mergeListCopy cf pol h to fa = some h') : WP h' := by
  have clear : ∀ p f td ta, getSub h to = some (p, f, td, ta) → WP (setBody h to (.sub td [])) := by
    intro p f td ta hg
    apply wp_setBody _ _ w
    exact ⟨(placed_of_getSub w hg).1, fun i c hc => by simp at hc⟩
  unfold mergeListCopy at he
  cases pol with
  | append => exact appendCpy_wp cf fa h h' to w he
  | merge => exact appendCpy_wp cf fa h h' to w he
  | replace =>
    simp only at he
    split at he
    · cases he; exact w
    · cases hg : getSub h to with
      | none => rw [hg] at he; cases he
      | some q =>
        obtain ⟨p, f, td, ta⟩ := q
        rw [hg] at he
        exact appendCpy_wp cf fa _ h' to (clear p f td ta hg) he
  | replaceArr =>
    simp only at he
    split at he
    · cases he; exact w
    · cases hg : getSub h to with
      | none => rw [hg] at he; cases he
      | some q =>
        obtain ⟨p, f, td, ta⟩ := q
        rw [hg] at he
        exact appendCpy_wp cf fa _ h' to (clear p f td ta hg) he
  | prepend =>
    simp only at he
    split at he
    · cases he; exact w
    · cases hg : getSub h to with
      | none => rw [hg] at he; cases he
      | some q =>
        obtain ⟨p, f, td, ta⟩ := q
        rw [hg] at he
        simp only at he
        cases h1e : appendCpy cf (setBody h to (.sub td [])) to fa with
        | none => rw [h1e] at he; cases he
        | some h1 =>
          rw [h1e] at he
          simp only at he
          exact appendCpy_wp cf ta h1 h' to (appendCpy_wp cf fa _ h1 to (clear p f td ta hg) h1e) he

structure WClaims (n : Nat) : Prop where
  mh : ∀ (cf : Nat) (pol : ArrPol) (h h' : Heap) (to frm : Id), WP h → mergeH n cf pol h to frm = some h' → WP h'
  md : ∀ (cf : Nat) (pol : ArrPol) (h h' : Heap) (to : Id) (fd : List (String × Id)), WP h →
    mergeDictH n cf pol h to fd = some h' → WP h'
  mi : ∀ (cf : Nat) (pol : ArrPol) (h h' : Heap) (to : Id) (i : Nat) (fa : List Id), WP h →
    mergeIdxH n cf pol h to i fa = some h' → WP h'

theorem wclaims : ∀ n, WClaims n := by
  intro n
  induction n with
  | zero =>
    refine ⟨?_, ?_, ?_⟩
    · intro cf pol h h' to frm _ he; simp [mergeH] at he
    · intro cf pol h h' to fd _ he; simp [mergeDictH] at he
    · intro cf pol h h' to i fa _ he; simp [mergeIdxH] at he
  | succ n IH =>
    refine ⟨?_, ?_, ?_⟩
    · intro cf pol h h' to frm w he
      simp only [mergeH] at he
      cases hg : getSub h to with
      | none => rw [hg] at he; cases he
      | some q =>
        obtain ⟨p, f, td0, ta0⟩ := q
        cases hgf : getSub h frm with
        | none => rw [hg, hgf] at he; cases he
        | some qf =>
          obtain ⟨pf, ff, fd, fa⟩ := qf
          rw [hg, hgf] at he
          simp only at he
          have w0 : WP (if (!fd.isEmpty && pol == ArrPol.replace) = true then setBody h to (.sub [] ta0) else h) := by
            split
            · apply wp_setBody _ _ w
              exact ⟨fun kc hkc => (by cases hkc), (placed_of_getSub w hg).2⟩
            · exact w
          cases hd : mergeDictH n cf pol (if (!fd.isEmpty && pol == ArrPol.replace) = true then setBody h to (.sub [] ta0) else h) to fd with
          | none => rw [hd] at he; cases he
          | some h1 =>
            rw [hd] at he
            simp only at he
            have w1 := IH.md cf pol _ h1 to fd w0 hd
            split at he
            · exact IH.mi cf pol h1 h' to 0 fa w1 he
            · exact mergeListCopy_wp cf pol h1 h' to fa w1 he
    · intro cf pol h h' to fd w he
      cases fd with
      | nil =>
        simp only [mergeDictH, Option.some.injEq] at he
        subst he
        exact w
      | cons kv r =>
        obtain ⟨k, v⟩ := kv
        simp only [mergeDictH] at he
        cases hg : getSub h to with
        | none => rw [hg] at he; cases he
        | some q =>
          obtain ⟨p, f, td, ta⟩ := q
          cases hv : h[v]? with
          | none => rw [hg, hv] at he; cases he
          | some vn =>
            rw [hg, hv] at he
            simp only at he
            have store : (match cpy cf h v (some to) k with
                | none => none
                | some (h1, c) => mergeDictH n cf pol (setBody h1 to (.sub (dictSet td k c) ta)) to r) = some h' → WP h' := by
              intro hst
              cases hc : cpy cf h v (some to) k with
              | none => rw [hc] at hst; cases hst
              | some r1 =>
                obtain ⟨h1, c⟩ := r1
                rw [hc] at hst
                simp only at hst
                have w1 : WP h1 := cpy_wp cf h v (some to) k h1 c w hc
                obtain ⟨hg1, _, ⟨b, hb⟩⟩ := getSub_after_cpy hc hg
                have pl := placed_of_getSub w1 hg1
                have w2 : WP (setBody h1 to (.sub (dictSet td k c) ta)) := by
                  apply wp_setBody _ _ w1
                  refine ⟨?_, pl.2⟩
                  intro kc hkc
                  rcases mem_dictSet_pair td k c kc hkc with e | e
                  · subst e; exact ⟨b, hb⟩
                  · exact pl.1 kc e
                exact IH.md cf pol _ h' to r w2 hst
            cases hf : (td.find? (fun x => x.1 == k)).map (·.2) with
            | none => rw [hf] at he; exact store he
            | some o =>
              rw [hf] at he
              simp only at he
              cases hon : h[o]? with
              | none => rw [hon] at he; cases he
              | some on =>
                rw [hon] at he
                simp only at he
                split at he
                · cases he
                · split at he
                  · cases hm : mergeH n cf pol h o v with
                    | none => rw [hm] at he; cases he
                    | some h1 =>
                      rw [hm] at he
                      simp only at he
                      exact IH.md cf pol h1 h' to r (IH.mh cf pol h h1 o v w hm) he
                  · exact store he
    · intro cf pol h h' to i fa w he
      cases fa with
      | nil =>
        simp only [mergeIdxH, Option.some.injEq] at he
        subst he
        exact w
      | cons v r =>
        simp only [mergeIdxH] at he
        cases hg : getSub h to with
        | none => rw [hg] at he; cases he
        | some q =>
          obtain ⟨p, f, td, ta⟩ := q
          cases hv : h[v]? with
          | none => rw [hg, hv] at he; cases he
          | some vn =>
            rw [hg, hv] at he
            simp only at he
            cases hi : ta[i]? with
            | none =>
              rw [hi] at he
              exact appendCpy_wp cf (v :: r) h h' to w he
            | some o =>
              rw [hi] at he
              simp only at he
              have store : (match cpy cf h v (some to) (idxName i) with
                  | none => none
                  | some (h1, c) => mergeIdxH n cf pol (setBody h1 to (.sub td (ta.set i c))) to (i + 1) r) = some h' → WP h' := by
                intro hst
                cases hc : cpy cf h v (some to) (idxName i) with
                | none => rw [hc] at hst; cases hst
                | some r1 =>
                  obtain ⟨h1, c⟩ := r1
                  rw [hc] at hst
                  simp only at hst
                  have w1 : WP h1 := cpy_wp cf h v (some to) _ h1 c w hc
                  obtain ⟨hg1, _, ⟨b, hb⟩⟩ := getSub_after_cpy hc hg
                  have pl := placed_of_getSub w1 hg1
                  have w2 : WP (setBody h1 to (.sub td (ta.set i c))) := by
                    apply wp_setBody _ _ w1
                    refine ⟨pl.1, ?_⟩
                    intro j x hx
                    rw [List.getElem?_set] at hx
                    split at hx
                    · rename_i hij
                      subst hij
                      split at hx
                      · simp only [Option.some.injEq] at hx; subst hx; exact ⟨b, hb⟩
                      · cases hx
                    · exact pl.2 j x hx
                  exact IH.mi cf pol _ h' to (i + 1) r w2 hst
              cases hon : h[o]? with
              | none => rw [hon] at he; cases he
              | some on =>
                rw [hon] at he
                simp only at he
                split at he
                · cases he
                · split at he
                  · cases hm : mergeH n cf pol h o v with
                    | none => rw [hm] at he; cases he
                    | some h1 =>
                      rw [hm] at he
                      simp only at he
                      exact IH.mi cf pol h1 h' to (i + 1) r (IH.mh cf pol h h1 o v w hm) he
                  · exact store he

end Ucfg.Forest
