import Ucfg.Lemmas.ForestPlacedMerge
/-!
  "Every node stores the position it is at" (`WP`) through Set* along a whole path: padding, `setAt`, `storeSeg`,
  `setChain`.
-/
namespace Ucfg.Forest

theorem padTo_wp : ∀ (n : Nat) (h : Heap) (to idx : Nat), WP h →
    WP (padTo n h to idx) ∧
    (getSub h to = none → padTo n h to idx = h) ∧
    (∀ p f d a, getSub h to = some (p, f, d, a) →
      ∃ pad, getSub (padTo n h to idx) to = some (p, f, d, a ++ pad) ∧ (idx ≤ a.length + n → idx ≤ (a ++ pad).length)) := by
  intro n
  induction n with
  | zero =>
    intro h to idx w
    refine ⟨w, fun _ => rfl, ?_⟩
    intro p f d a hg
    exact ⟨[], by simpa [padTo] using hg, by simp⟩
  | succ n ih =>
    intro h to idx w
    unfold padTo
    cases hg : getSub h to with
    | none => exact ⟨w, fun _ => rfl, fun p f d a hc => (by cases hc)⟩
    | some q =>
      obtain ⟨p, f, d, a⟩ := q
      simp only
      by_cases hlen : a.length < idx
      · rw [if_pos hlen]
        have htol := getSub_lt hg
        let nl : Node := nilNode (some to) (idxName a.length)
        have w1 : WP (h ++ [nl]) := by
          apply wp_append _ w
          intro j nd hj
          cases j with
          | zero => simp only [List.getElem?_cons_zero, Option.some.injEq] at hj; subst hj; trivial
          | succ j => simp at hj
        have hnode : (h ++ [nl])[to]? = some ⟨p, f, .sub d a⟩ := by
          rw [List.getElem?_append_left htol]; exact getSub_node hg
        have hg1 : getSub (h ++ [nl]) to = some (p, f, d, a) := getSub_of_node hnode
        have pl := placed_of_getSub w1 hg1
        have w2 : WP (setBody (h ++ [nl]) to (.sub d (a ++ [h.length]))) := by
          apply wp_setBody _ _ w1
          refine ⟨pl.1, ?_⟩
          intro i x hx
          by_cases hi : i < a.length
          · rw [List.getElem?_append_left hi] at hx
            exact pl.2 i x hx
          · have hge : a.length ≤ i := Nat.le_of_not_lt hi
            rw [List.getElem?_append_right hge] at hx
            cases hia : i - a.length with
            | zero =>
              rw [hia] at hx
              simp only [List.getElem?_cons_zero, Option.some.injEq] at hx
              subst hx
              have : i = a.length := by omega
              subst this
              exact ⟨.prim "nil" "", by rw [List.getElem?_append_right (Nat.le_refl _)]; simp [nl, nilNode]⟩
            | succ j => rw [hia] at hx; simp at hx
        have hg2 : getSub (setBody (h ++ [nl]) to (.sub d (a ++ [h.length]))) to = some (p, f, d, a ++ [h.length]) :=
          getSub_of_node (setBody_same _ _ _ _ hnode)
        obtain ⟨w3, _, hrest⟩ := ih _ to idx w2
        obtain ⟨pad, hgp, hle⟩ := hrest p f d (a ++ [h.length]) hg2
        refine ⟨w3, fun hc => (by cases hc), ?_⟩
        intro p' f' d' a' he
        simp only [Option.some.injEq, Prod.mk.injEq] at he
        obtain ⟨rfl, rfl, rfl, rfl⟩ := he
        refine ⟨[h.length] ++ pad, by simpa using hgp, ?_⟩
        intro hb
        have := hle (by simp; omega)
        simpa using this
      · rw [if_neg hlen]
        refine ⟨w, fun hc => (by cases hc), ?_⟩
        intro p' f' d' a' he
        simp only [Option.some.injEq, Prod.mk.injEq] at he
        obtain ⟨rfl, rfl, rfl, rfl⟩ := he
        exact ⟨[], by simpa using hg, fun _ => by simp; omega⟩

/-- fields.setAt with a value that carries the context of the slot it goes to -/
theorem setAt_wp (h : Heap) (to idx c : Nat) (w : WP h)
    (hc : ∃ b, h[c]? = some (⟨some to, idxName idx, b⟩ : Node)) : WP (setAt h to idx c) := by
  unfold setAt
  simp only
  obtain ⟨w1, hnone, hsome⟩ := padTo_wp (idx + 1) h to idx w
  have s1 : SameCtx h (padTo (idx + 1) h to idx) := (padTo_upd (idx + 1) h to idx).sameCtx
  obtain ⟨b0, hb0⟩ := hc
  obtain ⟨b1, hb1⟩ := s1.2 _ _ hb0
  cases hg1 : getSub (padTo (idx + 1) h to idx) to with
  | none => exact w1
  | some q =>
    obtain ⟨p, f, d, a1⟩ := q
    simp only
    have pl := placed_of_getSub w1 hg1
    split
    · apply wp_setBody _ _ w1
      refine ⟨pl.1, ?_⟩
      intro j x hx
      rw [List.getElem?_set] at hx
      split at hx
      · rename_i hij
        subst hij
        cases hx
        exact ⟨b1, hb1⟩
      · exact pl.2 j x hx
    · rename_i hnlt
      -- the list was padded up to idx: the value goes to the first free slot, which is idx
      have hlen : a1.length = idx := by
        cases hg : getSub h to with
        | none => rw [hnone hg] at hg1; rw [hg] at hg1; cases hg1
        | some q0 =>
          obtain ⟨p0, f0, d0, a0⟩ := q0
          obtain ⟨pad, hgp, hle⟩ := hsome p0 f0 d0 a0 hg
          rw [hgp] at hg1
          simp only [Option.some.injEq, Prod.mk.injEq] at hg1
          obtain ⟨_, _, _, rfl⟩ := hg1
          have := hle (by omega)
          omega
      apply wp_setBody _ _ w1
      refine ⟨pl.1, ?_⟩
      intro i x hx
      by_cases hi : i < a1.length
      · rw [List.getElem?_append_left hi] at hx
        exact pl.2 i x hx
      · have hge : a1.length ≤ i := Nat.le_of_not_lt hi
        rw [List.getElem?_append_right hge] at hx
        cases hia : i - a1.length with
        | zero =>
          rw [hia] at hx
          simp only [List.getElem?_cons_zero, Option.some.injEq] at hx
          subst hx
          have : i = idx := by omega
          subst this
          exact ⟨b1, hb1⟩
        | succ j => rw [hia] at hx; simp at hx

theorem storeSeg_wp (h : Heap) (to : Id) (s : Seg) (c : Id) (w : WP h)
    (hc : ∃ b, h[c]? = some (⟨some to, s.str, b⟩ : Node)) : WP (storeSeg h to s c) := by
  cases s with
  | idx i => exact setAt_wp h to i c w hc
  | name k =>
    unfold storeSeg
    simp only
    cases hg : getSub h to with
    | none => exact w
    | some q =>
      obtain ⟨p, f, d, a⟩ := q
      simp only
      have pl := placed_of_getSub w hg
      apply wp_setBody _ _ w
      refine ⟨?_, pl.2⟩
      intro kc hkc
      rcases mem_dictSet_pair d k c kc hkc with e | e
      · subst e; exact hc
      · exact pl.1 kc e

/-- Set* along a path keeps the invariant: every object created on the way and the value store where they are -/
theorem setChain_wp (k v : String) : ∀ (rest : List Seg) (h : Heap) (to : Id), to < h.length → WP h →
    WP (setChain h to rest (.prim k v)) := by
  intro rest
  induction rest with
  | nil => intro h to _ w; exact w
  | cons s r ih =>
    intro h to hto w
    have hne : h.length ≠ to := Nat.ne_of_gt hto
    cases r with
    | nil =>
      rw [setChain_one]
      apply storeSeg_wp
      · apply wp_append _ w
        intro j nd hj
        cases j with
        | zero => simp only [List.getElem?_cons_zero, Option.some.injEq] at hj; subst hj; trivial
        | succ j => simp at hj
      · exact ⟨.prim k v, by rw [List.getElem?_append_right (Nat.le_refl _)]; simp⟩
    | cons s2 r2 =>
      rw [setChain_cons2]
      let nw : Node := ⟨some to, s.str, .sub [] []⟩
      have w1 : WP (h ++ [nw]) := by
        apply wp_append _ w
        intro j nd hj
        cases j with
        | zero =>
          simp only [List.getElem?_cons_zero, Option.some.injEq] at hj
          subst hj
          exact ⟨fun kc hkc => (by cases hkc), fun i c hc => (by simp at hc)⟩
        | succ j => simp at hj
      have w2 : WP (storeSeg (h ++ [nw]) to s h.length) :=
        storeSeg_wp _ to s h.length w1 ⟨.sub [] [], by rw [List.getElem?_append_right (Nat.le_refl _)]; simp [nw]⟩
      have hlt : h.length < (storeSeg (h ++ [nw]) to s h.length).length :=
        Nat.lt_of_lt_of_le (by simp) (storeSeg_upd (h ++ [nw]) to s h.length).1
      exact ih _ h.length hlt w2

end Ucfg.Forest
