import Ucfg.Lemmas.ForestAcyclic
import Ucfg.Lemmas.ForestPlacedMerge
/-!
  Copies are trees of new nodes: every node a deep copy (or `buildH`) allocates lists only nodes allocated after it.
  Merge stores copies only, so it cannot close a cycle: `MInv` (new nodes list later nodes, old nodes list what they
  listed or new nodes) is carried through Merge as a whole, and implies that a heap without cycles stays without cycles.
-/
namespace Ucfg.Forest

/-- nodes behind `base` list only later nodes of the heap -/
def Up (base : Nat) (h : Heap) : Prop :=
  ∀ (a : Nat) (nd : Node), base ≤ a → h[a]? = some nd → ∀ x ∈ nd.body.children, a < x ∧ x < h.length

theorem up_append_leaf (base : Nat) (h : Heap) (nd : Node) (u : Up base h) (hk : nd.body.children = []) :
    Up base (h ++ [nd]) := by
  intro a nd' ha hn x hx
  by_cases hlt : a < h.length
  · rw [List.getElem?_append_left hlt] at hn
    obtain ⟨h1, h2⟩ := u a nd' ha hn x hx
    exact ⟨h1, Nat.lt_of_lt_of_le h2 (by simp)⟩
  · rw [List.getElem?_append_right (Nat.le_of_not_lt hlt)] at hn
    cases hai : a - h.length with
    | zero => rw [hai] at hn; simp only [List.getElem?_cons_zero, Option.some.injEq] at hn; subst hn; rw [hk] at hx; cases hx
    | succ k => rw [hai] at hn; simp at hn

/-- first `base .. h1`, then `h1 .. h1 ++ t` -/
theorem up_ext {base : Nat} {h1 : Heap} (t : List Node) (u1 : Up base h1) (u2 : Up h1.length (h1 ++ t)) : Up base (h1 ++ t) := by
  intro a nd ha hn x hx
  by_cases hlt : a < h1.length
  · rw [List.getElem?_append_left hlt] at hn
    obtain ⟨e1, e2⟩ := u1 a nd ha hn x hx
    exact ⟨e1, Nat.lt_of_lt_of_le e2 (by simp)⟩
  · exact u2 a nd (Nat.le_of_not_lt hlt) hn x hx

theorem up_weaken {b1 b2 : Nat} {h : Heap} (hb : b1 ≤ b2) (u : Up b1 h) : Up b2 h :=
  fun a nd ha hn x hx => u a nd (Nat.le_trans hb ha) hn x hx

theorem up_setBody {base : Nat} {h : Heap} (me : Id) (b : Body) (u : Up base h)
    (hb : ∀ x ∈ b.children, me < x ∧ x < h.length) : Up base (setBody h me b) := by
  intro a nd ha hn x hx
  rw [setBody_length]
  by_cases e : a = me
  · subst e
    cases h0 : h[a]? with
    | none =>
      have : setBody h a b = h := by unfold setBody; rw [h0]
      rw [this, h0] at hn; cases hn
    | some n0 =>
      rw [setBody_same h a b n0 h0] at hn
      simp only [Option.some.injEq] at hn
      subst hn
      exact hb x hx
  · rw [setBody_other h me a b e] at hn
    exact u a nd ha hn x hx

/-- a copying function builds upward -/
def CpyUp (f : Heap → Id → Option Id → String → Option (Heap × Id)) : Prop :=
  ∀ (h : Heap) (c : Id) (p : Option Id) (fl : String) (h' : Heap) (id' : Id), f h c p fl = some (h', id') → Up h.length h'

theorem cpyList_up {κ : Type} (f : Heap → Id → Option Id → String → Option (Heap × Id)) (me : Nat)
    (hf : Good f 0) (hu : CpyUp f) :
    ∀ (cs : List (κ × Id)) (h h2 : Heap) (cs' : List (κ × Id)), cpyList f me h cs = some (h2, cs') →
      Up h.length h2 ∧ (∃ t, h2 = h ++ t) ∧ ∀ kc ∈ cs', h.length ≤ kc.2 ∧ kc.2 < h2.length := by
  intro cs
  induction cs with
  | nil =>
    intro h h2 cs' he
    simp only [cpyList, Option.some.injEq, Prod.mk.injEq] at he
    obtain ⟨rfl, rfl⟩ := he
    refine ⟨?_, ⟨[], by simp⟩, fun kc hkc => (by cases hkc)⟩
    intro a nd ha hn
    rw [List.getElem?_eq_none ha] at hn; cases hn
  | cons kc r ih =>
    intro h h2 cs' he
    obtain ⟨k, c⟩ := kc
    simp only [cpyList] at he
    cases hn : h[c]? with
    | none => simp [hn] at he
    | some n =>
      simp only [hn] at he
      cases hc : f h c (some me) n.field with
      | none => simp [hc] at he
      | some r1 =>
        obtain ⟨h1, c'⟩ := r1
        simp only [hc] at he
        cases hr : cpyList f me h1 r with
        | none => simp [hr] at he
        | some r2 =>
          obtain ⟨h2', r'⟩ := r2
          simp only [hr, Option.some.injEq, Prod.mk.injEq] at he
          obtain ⟨rfl, rfl⟩ := he
          have u1 : Up h.length h1 := hu h c (some me) n.field h1 c' hc
          obtain ⟨t1, rfl, hid, _, ⟨b1, hb1⟩⟩ := hf h c (some me) n.field h1 c' (Nat.zero_le _) hc
          obtain ⟨u2, ⟨t2, rfl⟩, hids⟩ := ih (h ++ t1) h2' r' hr
          have hc'lt : c' < (h ++ t1).length := lt_of_getElem?_some hb1
          refine ⟨up_ext t2 u1 u2, ⟨t1 ++ t2, by simp⟩, ?_⟩
          intro kc hkc
          rcases List.mem_cons.mp hkc with e | e
          · subst e
            simp only
            exact ⟨by rw [hid]; exact Nat.le_refl _, Nat.lt_of_lt_of_le hc'lt (by simp)⟩
          · obtain ⟨e1, e2⟩ := hids kc e
            exact ⟨Nat.le_trans (by simp) e1, e2⟩

theorem cpy_up : ∀ n : Nat, CpyUp (cpy n) := by
  intro n
  induction n with
  | zero => intro h c p fl h' id' he; simp [cpy] at he
  | succ n ih =>
    intro h id p fl h' id' he
    simp only [cpy] at he
    cases hn : h[id]? with
    | none => simp [hn] at he
    | some nd =>
      obtain ⟨np, nf, nb⟩ := nd
      cases nb with
      | prim k v =>
        simp only [hn, Option.some.injEq, Prod.mk.injEq] at he
        obtain ⟨rfl, rfl⟩ := he
        apply up_append_leaf
        · intro a nd ha hn'; rw [List.getElem?_eq_none ha] at hn'; cases hn'
        · rfl
      | sub d a =>
        simp only [hn] at he
        cases h1e : cpyList (cpy n) h.length (h ++ [⟨p, fl, .sub [] []⟩]) d with
        | none => simp [h1e] at he
        | some r1 =>
          obtain ⟨h2, d'⟩ := r1
          simp only [h1e] at he
          cases h2e : cpyList (cpy n) h.length h2 (a.map (fun c => ((), c))) with
          | none => simp [h2e] at he
          | some r2 =>
            obtain ⟨h3, a'⟩ := r2
            simp only [h2e, Option.some.injEq, Prod.mk.injEq] at he
            obtain ⟨rfl, rfl⟩ := he
            generalize hnw : (⟨p, fl, .sub [] []⟩ : Node) = nw at *
            have u0 : Up h.length (h ++ [nw]) := by
              apply up_append_leaf
              · intro a nd ha hn'; rw [List.getElem?_eq_none ha] at hn'; cases hn'
              · rw [← hnw]; rfl
            obtain ⟨u1, ⟨t1, ht1⟩, ids1⟩ := cpyList_up (cpy n) h.length (cpy_good n 0) ih d _ h2 d' h1e
            subst ht1
            obtain ⟨u2, ⟨t2, ht2⟩, ids2⟩ := cpyList_up (cpy n) h.length (cpy_good n 0) ih _ _ h3 a' h2e
            subst ht2
            have uA : Up h.length (h ++ [nw] ++ t1) := up_ext t1 u0 u1
            have uB : Up h.length (h ++ [nw] ++ t1 ++ t2) := up_ext t2 uA u2
            have hme : (h ++ [nw] ++ t1 ++ t2)[h.length]? = some nw := by
              have : h ++ [nw] ++ t1 ++ t2 = h ++ (nw :: (t1 ++ t2)) := by simp
              rw [this, List.getElem?_append_right (Nat.le_refl _)]
              simp
            have hset : (h ++ [nw] ++ t1 ++ t2).set h.length ⟨p, fl, .sub d' (a'.map (·.2))⟩ =
                setBody (h ++ [nw] ++ t1 ++ t2) h.length (.sub d' (a'.map (·.2))) := by
              unfold setBody; rw [hme, ← hnw]
            show Up h.length ((h ++ [nw] ++ t1 ++ t2).set h.length ⟨p, fl, .sub d' (a'.map (·.2))⟩)
            rw [hset]
            apply up_setBody _ _ uB
            intro x hx
            simp only [Body.children, List.mem_append, List.mem_map] at hx
            rcases hx with ⟨kc, hkc, rfl⟩ | ⟨kc, hkc, rfl⟩
            · obtain ⟨e1, e2⟩ := ids1 kc hkc
              exact ⟨Nat.lt_of_lt_of_le (by simp) e1, Nat.lt_of_lt_of_le e2 (by simp)⟩
            · obtain ⟨e1, e2⟩ := ids2 kc hkc
              exact ⟨Nat.lt_of_lt_of_le (by simp) e1, e2⟩

/-! ### Merge stores copies: the invariant -/

/-- relative to the heap `h0` a merge started from (`base = h0.length`): new nodes list later nodes, old nodes list what
they listed in `h0` or new nodes -/
structure MInv (base : Nat) (h0 h : Heap) : Prop where
  up : Up base h
  olds : ∀ a, a < base → ∀ x ∈ kids h a, x ∈ kids h0 a ∨ (base ≤ x ∧ x < h.length)
  len : base ≤ h.length

theorem kids_of_getSub {h : Heap} {to : Id} {p f d a} (hg : getSub h to = some (p, f, d, a)) :
    kids h to = d.map (·.2) ++ a := by
  rw [kids_of_node (getSub_node hg)]; rfl

theorem minv_cpy {base : Nat} {h0 h h1 : Heap} {cf : Nat} {v c : Id} {p : Option Id} {k : String}
    (inv : MInv base h0 h) (hc : cpy cf h v p k = some (h1, c)) :
    MInv base h0 h1 ∧ h.length ≤ c ∧ c < h1.length ∧ h.length ≤ h1.length := by
  have u := cpy_up cf h v p k h1 c hc
  obtain ⟨t, rfl, hid, _, ⟨b, hb⟩⟩ := cpy_good cf 0 h v p k h1 c (Nat.zero_le _) hc
  refine ⟨⟨up_ext t inv.up u, ?_, Nat.le_trans inv.len (by simp)⟩, by rw [hid]; exact Nat.le_refl _, lt_of_getElem?_some hb, by simp⟩
  intro a ha x hx
  have hlt : a < h.length := Nat.lt_of_lt_of_le ha inv.len
  rw [kids_eq_of_node_eq (List.getElem?_append_left hlt)] at hx
  rcases inv.olds a ha x hx with e | ⟨e1, e2⟩
  · exact .inl e
  · exact .inr ⟨e1, Nat.lt_of_lt_of_le e2 (by simp)⟩

/-- writing a body that lists what the node listed, and new nodes behind it -/
theorem minv_setBody {base : Nat} {h0 h : Heap} {to : Id} {p f d a} (inv : MInv base h0 h)
    (hg : getSub h to = some (p, f, d, a)) (b : Body)
    (hb : ∀ x ∈ b.children, x ∈ d.map (·.2) ++ a ∨ (base ≤ x ∧ to < x ∧ x < h.length)) :
    MInv base h0 (setBody h to b) := by
  have hk := kids_of_getSub hg
  have hnode := getSub_node hg
  refine ⟨?_, ?_, by rw [setBody_length]; exact inv.len⟩
  · by_cases hto : base ≤ to
    · apply up_setBody _ _ inv.up
      intro x hx
      rcases hb x hx with e | ⟨_, e2, e3⟩
      · exact inv.up to _ hto hnode x (by rw [← kids_of_node hnode, hk]; exact e)
      · exact ⟨e2, e3⟩
    · intro a' nd ha hn x hx
      rw [setBody_length]
      have hne : a' ≠ to := fun e => hto (e ▸ ha)
      rw [setBody_other h to a' b hne] at hn
      exact inv.up a' nd ha hn x hx
  · intro a' ha x hx
    rw [setBody_length]
    by_cases e : a' = to
    · subst e
      rw [kids_of_node (setBody_same h a' b _ hnode)] at hx
      rcases hb x hx with e1 | ⟨e1, _, e3⟩
      · exact inv.olds a' ha x (by rw [hk]; exact e1)
      · exact .inr ⟨e1, e3⟩
    · rw [kids_eq_of_node_eq (setBody_other h to a' b e)] at hx
      exact inv.olds a' ha x hx

theorem appendCpy_minv {base : Nat} {h0 : Heap} (cf : Nat) : ∀ (src : List Id) (h h' : Heap) (to : Id),
    MInv base h0 h → appendCpy cf h to src = some h' → MInv base h0 h'
  | [], h, h', to, inv, he => by
    simp only [appendCpy, Option.some.injEq] at he
    subst he
    exact inv
  | c :: r, h, h', to, inv, he => by
    simp only [appendCpy] at he
    cases hg : getSub h to with
    | none => rw [hg] at he; cases he
    | some q =>
      obtain ⟨p, f, d, a⟩ := q
      rw [hg] at he
      simp only at he
      cases hc : cpy cf h c (some to) (idxName a.length) with
      | none => rw [hc] at he; cases he
      | some r1 =>
        obtain ⟨h1, c'⟩ := r1
        rw [hc] at he
        simp only at he
        obtain ⟨inv1, e1, e2, _⟩ := minv_cpy inv hc
        obtain ⟨hg1, _, _⟩ := getSub_after_cpy hc hg
        have hto : to < h.length := getSub_lt hg
        have inv2 := minv_setBody inv1 hg1 (.sub d (a ++ [c'])) (by
          intro x hx
          simp only [Body.children, List.mem_append, List.mem_singleton] at hx ⊢
          rcases hx with hx | hx | hx
          · exact .inl (.inl hx)
          · exact .inl (.inr hx)
          · subst hx
            exact .inr ⟨Nat.le_trans inv.len e1, Nat.lt_of_lt_of_le hto e1, e2⟩)
        exact appendCpy_minv cf r _ h' to inv2 he

theorem mergeListCopy_minv {base : Nat} {h0 : Heap} (cf : Nat) (pol : ArrPol) (h h' : Heap) (to : Id) (fa : List Id)
    (inv : MInv base h0 h) (he : mergeListCopy cf pol h to fa = some h') : MInv base h0 h' := by
  have clear : ∀ p f td ta, getSub h to = some (p, f, td, ta) → MInv base h0 (setBody h to (.sub td [])) := by
    intro p f td ta hg
    apply minv_setBody inv hg
    intro x hx
    simp only [Body.children, List.append_nil] at hx
    exact .inl (List.mem_append_left _ hx)
  unfold mergeListCopy at he
  cases pol with
  | append => exact appendCpy_minv cf fa h h' to inv he
  | merge => exact appendCpy_minv cf fa h h' to inv he
  | replace =>
    simp only at he
    split at he
    · cases he; exact inv
    · cases hg : getSub h to with
      | none => rw [hg] at he; cases he
      | some q =>
        obtain ⟨p, f, td, ta⟩ := q
        rw [hg] at he
        exact appendCpy_minv cf fa _ h' to (clear p f td ta hg) he
  | replaceArr =>
    simp only at he
    split at he
    · cases he; exact inv
    · cases hg : getSub h to with
      | none => rw [hg] at he; cases he
      | some q =>
        obtain ⟨p, f, td, ta⟩ := q
        rw [hg] at he
        exact appendCpy_minv cf fa _ h' to (clear p f td ta hg) he
  | prepend =>
    simp only at he
    split at he
    · cases he; exact inv
    · cases hg : getSub h to with
      | none => rw [hg] at he; cases he
      | some q =>
        obtain ⟨p, f, td, ta⟩ := q
        rw [hg] at he
        simp only at he
        cases h1e : appendCpy cf (setBody h to (.sub td [])) to fa with
        | none => rw [h1e] at he; cases he
        | some h1 =>
          rw [h1e] at he
          simp only at he
          exact appendCpy_minv cf ta h1 h' to (appendCpy_minv cf fa _ h1 to (clear p f td ta hg) h1e) he

structure AClaims (base : Nat) (h0 : Heap) (n : Nat) : Prop where
  mh : ∀ (cf : Nat) (pol : ArrPol) (h h' : Heap) (to frm : Id), MInv base h0 h → mergeH n cf pol h to frm = some h' → MInv base h0 h'
  md : ∀ (cf : Nat) (pol : ArrPol) (h h' : Heap) (to : Id) (fd : List (String × Id)), MInv base h0 h →
    mergeDictH n cf pol h to fd = some h' → MInv base h0 h'
  mi : ∀ (cf : Nat) (pol : ArrPol) (h h' : Heap) (to : Id) (i : Nat) (fa : List Id), MInv base h0 h →
    mergeIdxH n cf pol h to i fa = some h' → MInv base h0 h'

theorem aclaims (base : Nat) (h0 : Heap) : ∀ n, AClaims base h0 n := by
  intro n
  induction n with
  | zero =>
    refine ⟨?_, ?_, ?_⟩
    · intro cf pol h h' to frm _ he; simp [mergeH] at he
    · intro cf pol h h' to fd _ he; simp [mergeDictH] at he
    · intro cf pol h h' to i fa _ he; simp [mergeIdxH] at he
  | succ n IH =>
    refine ⟨?_, ?_, ?_⟩
    · intro cf pol h h' to frm inv he
      simp only [mergeH] at he
      cases hg : getSub h to with
      | none => rw [hg] at he; cases he
      | some q =>
        obtain ⟨p, f, td0, ta0⟩ := q
        cases hgf : getSub h frm with
        | none => rw [hg, hgf] at he; cases he
        | some qf =>
          obtain ⟨pf, ff, fd, fa⟩ := qf
          rw [hg, hgf] at he
          simp only at he
          have inv0 : MInv base h0 (if (!fd.isEmpty && pol == ArrPol.replace) = true then setBody h to (.sub [] ta0) else h) := by
            split
            · apply minv_setBody inv hg
              intro x hx
              simp only [Body.children, List.map_nil, List.nil_append] at hx
              exact .inl (List.mem_append_right _ hx)
            · exact inv
          cases hd : mergeDictH n cf pol (if (!fd.isEmpty && pol == ArrPol.replace) = true then setBody h to (.sub [] ta0) else h) to fd with
          | none => rw [hd] at he; cases he
          | some h1 =>
            rw [hd] at he
            simp only at he
            have inv1 := IH.md cf pol _ h1 to fd inv0 hd
            split at he
            · exact IH.mi cf pol h1 h' to 0 fa inv1 he
            · exact mergeListCopy_minv cf pol h1 h' to fa inv1 he
    · intro cf pol h h' to fd inv he
      cases fd with
      | nil =>
        simp only [mergeDictH, Option.some.injEq] at he
        subst he
        exact inv
      | cons kv r =>
        obtain ⟨k, v⟩ := kv
        simp only [mergeDictH] at he
        cases hg : getSub h to with
        | none => rw [hg] at he; cases he
        | some q =>
          obtain ⟨p, f, td, ta⟩ := q
          cases hv : h[v]? with
          | none => rw [hg, hv] at he; cases he
          | some vn =>
            rw [hg, hv] at he
            simp only at he
            have hto : to < h.length := getSub_lt hg
            have store : (match cpy cf h v (some to) k with
                | none => none
                | some (h1, c) => mergeDictH n cf pol (setBody h1 to (.sub (dictSet td k c) ta)) to r) = some h' → MInv base h0 h' := by
              intro hst
              cases hc : cpy cf h v (some to) k with
              | none => rw [hc] at hst; cases hst
              | some r1 =>
                obtain ⟨h1, c⟩ := r1
                rw [hc] at hst
                simp only at hst
                obtain ⟨inv1, e1, e2, _⟩ := minv_cpy inv hc
                obtain ⟨hg1, _, _⟩ := getSub_after_cpy hc hg
                have inv2 := minv_setBody inv1 hg1 (.sub (dictSet td k c) ta) (by
                  intro x hx
                  simp only [Body.children, List.mem_append] at hx ⊢
                  rcases hx with hx | hx
                  · rcases mem_dictSet td k c x hx with e | e
                    · subst e
                      exact .inr ⟨Nat.le_trans inv.len e1, Nat.lt_of_lt_of_le hto e1, e2⟩
                    · exact .inl (.inl e)
                  · exact .inl (.inr hx))
                exact IH.md cf pol _ h' to r inv2 hst
            cases hf : (td.find? (fun x => x.1 == k)).map (·.2) with
            | none => rw [hf] at he; exact store he
            | some o =>
              rw [hf] at he
              simp only at he
              cases hon : h[o]? with
              | none => rw [hon] at he; cases he
              | some on =>
                rw [hon] at he
                simp only at he
                split at he
                · cases he
                · split at he
                  · cases hm : mergeH n cf pol h o v with
                    | none => rw [hm] at he; cases he
                    | some h1 =>
                      rw [hm] at he
                      simp only at he
                      exact IH.md cf pol h1 h' to r (IH.mh cf pol h h1 o v inv hm) he
                  · exact store he
    · intro cf pol h h' to i fa inv he
      cases fa with
      | nil =>
        simp only [mergeIdxH, Option.some.injEq] at he
        subst he
        exact inv
      | cons v r =>
        simp only [mergeIdxH] at he
        cases hg : getSub h to with
        | none => rw [hg] at he; cases he
        | some q =>
          obtain ⟨p, f, td, ta⟩ := q
          cases hv : h[v]? with
          | none => rw [hg, hv] at he; cases he
          | some vn =>
            rw [hg, hv] at he
            simp only at he
            have hto : to < h.length := getSub_lt hg
            cases hi : ta[i]? with
            | none =>
              rw [hi] at he
              exact appendCpy_minv cf (v :: r) h h' to inv he
            | some o =>
              rw [hi] at he
              simp only at he
              have store : (match cpy cf h v (some to) (idxName i) with
                  | none => none
                  | some (h1, c) => mergeIdxH n cf pol (setBody h1 to (.sub td (ta.set i c))) to (i + 1) r) = some h' → MInv base h0 h' := by
                intro hst
                cases hc : cpy cf h v (some to) (idxName i) with
                | none => rw [hc] at hst; cases hst
                | some r1 =>
                  obtain ⟨h1, c⟩ := r1
                  rw [hc] at hst
                  simp only at hst
                  obtain ⟨inv1, e1, e2, _⟩ := minv_cpy inv hc
                  obtain ⟨hg1, _, _⟩ := getSub_after_cpy hc hg
                  have inv2 := minv_setBody inv1 hg1 (.sub td (ta.set i c)) (by
                    intro x hx
                    simp only [Body.children, List.mem_append] at hx ⊢
                    rcases hx with hx | hx
                    · exact .inl (.inl hx)
                    · rcases List.mem_or_eq_of_mem_set hx with e | e
                      · exact .inl (.inr e)
                      · subst e
                        exact .inr ⟨Nat.le_trans inv.len e1, Nat.lt_of_lt_of_le hto e1, e2⟩)
                  exact IH.mi cf pol _ h' to (i + 1) r inv2 hst
              cases hon : h[o]? with
              | none => rw [hon] at he; cases he
              | some on =>
                rw [hon] at he
                simp only at he
                split at he
                · cases he
                · split at he
                  · cases hm : mergeH n cf pol h o v with
                    | none => rw [hm] at he; cases he
                    | some h1 =>
                      rw [hm] at he
                      simp only at he
                      exact IH.mi cf pol h1 h' to (i + 1) r (IH.mh cf pol h h1 o v inv hm) he
                  · exact store he

/-! ### ... which keeps a heap without cycles without cycles -/

theorem minv_refl (h0 : Heap) (kc : KidsClosed h0) : MInv h0.length h0 h0 := by
  refine ⟨?_, fun a _ x hx => .inl hx, Nat.le_refl _⟩
  intro a nd ha hn
  rw [List.getElem?_eq_none ha] at hn; cases hn

theorem minv_reach_up {base : Nat} {h0 h : Heap} (inv : MInv base h0 h) {u b : Id} (r : Reach h u b) :
    base ≤ u → u ≤ b := by
  induction r with
  | refl a => intro _; exact Nat.le_refl _
  | @step u y b hy _ ih =>
    intro hu
    cases hn : h[u]? with
    | none => rw [kids, hn] at hy; cases hy
    | some nd =>
      rw [kids_of_node hn] at hy
      obtain ⟨e1, _⟩ := inv.up u nd hu hn y hy
      exact Nat.le_trans (Nat.le_of_lt e1) (ih (Nat.le_trans hu (Nat.le_of_lt e1)))

theorem minv_reach_old {base : Nat} {h0 h : Heap} (inv : MInv base h0 h) {u b : Id} (r : Reach h u b) :
    b < base → u < base ∧ Reach h0 u b := by
  induction r with
  | refl a => intro hb; exact ⟨hb, .refl a⟩
  | @step u y b hy hr ih =>
    intro hb
    obtain ⟨hyo, ryb⟩ := ih hb
    have huo : u < base := by
      apply Nat.lt_of_not_le
      intro hge
      have := minv_reach_up inv (.step hy hr) hge
      exact absurd (Nat.lt_of_lt_of_le hb hge) (Nat.not_lt.mpr this)
    refine ⟨huo, ?_⟩
    rcases inv.olds u huo y hy with e | ⟨e, _⟩
    · exact .step e ryb
    · exact absurd hyo (Nat.not_lt.mpr e)

/-- the invariant keeps a heap free of cycles, and its entries inside the heap -/
theorem minv_noCycle {h0 h : Heap} (inv : MInv h0.length h0 h) (kc : KidsClosed h0) (nc : NoCycle h0) :
    NoCycle h ∧ KidsClosed h := by
  refine ⟨?_, ?_⟩
  · intro a x hx hr
    by_cases ha : a < h0.length
    · obtain ⟨hxo, rxa⟩ := minv_reach_old inv hr ha
      rcases inv.olds a ha x hx with e | ⟨e, _⟩
      · exact nc a x e rxa
      · exact absurd hxo (Nat.not_lt.mpr e)
    · have hge : h0.length ≤ a := Nat.le_of_not_lt ha
      cases hn : h[a]? with
      | none => rw [kids, hn] at hx; cases hx
      | some nd =>
        rw [kids_of_node hn] at hx
        obtain ⟨e1, _⟩ := inv.up a nd hge hn x hx
        have := minv_reach_up inv hr (Nat.le_trans hge (Nat.le_of_lt e1))
        exact absurd e1 (Nat.not_lt.mpr this)
  · intro a x hx
    by_cases ha : a < h0.length
    · rcases inv.olds a ha x hx with e | ⟨_, e⟩
      · exact Nat.lt_of_lt_of_le (kc a x e) inv.len
      · exact e
    · cases hn : h[a]? with
      | none => rw [kids, hn] at hx; cases hx
      | some nd =>
        rw [kids_of_node hn] at hx
        exact (inv.up a nd (Nat.le_of_not_lt ha) hn x hx).2

end Ucfg.Forest
