import Ucfg.Props.C20
