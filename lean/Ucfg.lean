import Ucfg.Props.C20
import Ucfg.Props.C17
