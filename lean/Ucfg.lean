import Ucfg.Props.C20
import Ucfg.Props.C17
import Ucfg.Props.C01
import Ucfg.Props.C16
import Ucfg.Props.C12
import Ucfg.Props.C03
import Ucfg.Props.C05
import Ucfg.Props.C09
